//! Runs the generated twin functions (src/gen.rs, written by lib/macrogen.py from the cases TLC
//! prints for Macro.tla) and writes one observation per case.
#![allow(unused_variables, unused_mut, unreachable_code, dead_code, unused_assignments, clippy::all)]

mod gen;

use std::future::Future;
use std::pin::Pin;
use std::sync::Mutex;
use std::task::{Context, Poll, RawWaker, RawWakerVTable, Waker};

use fastrace::collector::{Config, Reporter, SpanRecord};
use fastrace::prelude::*;
use serde_json::{json, Value};

pub type Log = Vec<String>;

/// An argument whose `Display` implementation records something itself (a fastrace-aware value, a logger):
/// what `#[trace(properties = ..)]` formats may call back into the library.
#[derive(Clone, Copy)]
pub struct Rec;
impl std::fmt::Display for Rec {
    fn fmt(&self, f: &mut std::fmt::Formatter<'_>) -> std::fmt::Result {
        fastrace::local::LocalSpan::add_event(fastrace::Event::new("fmt-ev"));
        write!(f, "W")
    }
}


pub fn ok_fn(log: &mut Log, i: usize) -> Result<i32, String> {
    log.push(format!("ok:{i}"));
    Ok(1)
}
pub fn err_fn(log: &mut Log, i: usize) -> Result<i32, String> {
    log.push(format!("err:{i}"));
    Err(format!("boom{i}"))
}

/// Called in the caller's scope after the annotated call has returned (or unwound): the local context
/// must be the caller's again.
#[fastrace::trace(name = "after")]
pub fn after_traced() {}

#[fastrace::trace(name = "inner")]
pub fn inner_traced(log: &mut Log, i: usize) {
    log.push(format!("in:{i}"));
}
pub fn inner_plain(log: &mut Log, i: usize) {
    log.push(format!("in:{i}"));
}

/// A future that is pending once.
pub struct Pend(pub bool);
impl Future for Pend {
    type Output = ();
    fn poll(mut self: Pin<&mut Self>, _cx: &mut Context<'_>) -> Poll<()> {
        if self.0 {
            Poll::Ready(())
        } else {
            self.0 = true;
            Poll::Pending
        }
    }
}

fn noop_waker() -> Waker {
    fn clone(_: *const ()) -> RawWaker {
        RawWaker::new(std::ptr::null(), &VTABLE)
    }
    fn noop(_: *const ()) {}
    static VTABLE: RawWakerVTable = RawWakerVTable::new(clone, noop, noop, noop);
    unsafe { Waker::from_raw(RawWaker::new(std::ptr::null(), &VTABLE)) }
}

/// Polls to completion, returns the output and the number of polls.
pub fn block_on<F: Future>(f: F) -> (F::Output, usize) {
    let mut f = Box::pin(f);
    let w = noop_waker();
    let mut cx = Context::from_waker(&w);
    let mut n = 0;
    loop {
        n += 1;
        if let Poll::Ready(v) = f.as_mut().poll(&mut cx) {
            return (v, n);
        }
        if n > 100 {
            panic!("never ready");
        }
    }
}

static RECS: Mutex<Vec<SpanRecord>> = Mutex::new(Vec::new());
struct Cap;
impl Reporter for Cap {
    fn report(&mut self, spans: Vec<SpanRecord>) {
        RECS.lock().unwrap().extend(spans);
    }
}

pub fn outcome<T: std::fmt::Debug>(r: std::thread::Result<T>) -> Value {
    match r {
        Ok(v) => json!({"k": "ret", "v": format!("{:?}", v)}),
        Err(p) => {
            let msg = p.downcast_ref::<String>().cloned().or_else(|| p.downcast_ref::<&str>().map(|s| s.to_string())).unwrap_or_default();
            json!({"k": "panic", "v": msg})
        }
    }
}

/// Runs `f` under a fresh root set as local parent (or with no local parent) and returns the
/// records delivered for it: (records, id of the root).
pub fn traced_run(with_parent: bool, f: &mut dyn FnMut()) -> (Vec<SpanRecord>, u64) {
    fastrace::flush();
    RECS.lock().unwrap().clear();
    let mut root_id = 0;
    if with_parent {
        let root = Span::root("root", SpanContext::random());
        root_id = SpanContext::from_span(&root).map(|c| c.span_id.0).unwrap_or(0);
        {
            let _g = root.set_local_parent();
            f();
            after_traced();
        }
        drop(root);
    } else {
        f();
    }
    fastrace::flush();
    (std::mem::take(&mut *RECS.lock().unwrap()), root_id)
}

/// An async-trait method is called under one local parent and its future polled under another: the
/// span belongs to the caller's.  Returns the records with parents named rootA (caller) / rootB (poller).
pub fn split_begin() -> (Span, Span) {
    fastrace::flush();
    RECS.lock().unwrap().clear();
    (Span::root("rootA", SpanContext::random()), Span::root("rootB", SpanContext::random()))
}
pub fn split_end(ra: Span, rb: Span) -> Value {
    let ida = SpanContext::from_span(&ra).map(|c| c.span_id.0).unwrap_or(0);
    let idb = SpanContext::from_span(&rb).map(|c| c.span_id.0).unwrap_or(0);
    drop(ra);
    drop(rb);
    fastrace::flush();
    let recs = std::mem::take(&mut *RECS.lock().unwrap());
    Value::Array(
        recs.iter()
            .filter(|r| r.name != "rootA" && r.name != "rootB")
            .map(|r| {
                let parent = if r.parent_id.0 == ida {
                    "rootA".to_string()
                } else if r.parent_id.0 == idb {
                    "rootB".to_string()
                } else {
                    recs.iter().find(|p| p.span_id == r.parent_id).map(|p| p.name.to_string()).unwrap_or_else(|| "?".into())
                };
                json!({"name": r.name, "parent": parent, "props": r.properties.iter().map(|(k, v)| json!([k, v])).collect::<Vec<_>>()})
            })
            .collect(),
    )
}

pub fn recs_json(recs: &[SpanRecord], root_id: u64) -> Value {
    Value::Array(
        recs.iter()
            .filter(|r| r.name != "root")
            .map(|r| {
                let parent = if r.parent_id.0 == root_id {
                    "root".to_string()
                } else {
                    recs.iter().find(|p| p.span_id == r.parent_id).map(|p| p.name.to_string()).unwrap_or_else(|| "?".into())
                };
                json!({"name": r.name, "parent": parent, "props": r.properties.iter().map(|(k, v)| json!([k, v])).collect::<Vec<_>>()})
            })
            .collect(),
    )
}

fn main() {
    std::panic::set_hook(Box::new(|_| {}));
    fastrace::set_reporter(Cap, Config::default().report_interval(std::time::Duration::from_secs(3600)));
    let out = std::env::args().nth(1).expect("output file");
    let obs = gen::run_all();
    let mut s = String::new();
    for o in obs {
        s.push_str(&o.to_string());
        s.push('\n');
    }
    std::fs::write(out, s).unwrap();
}
