//! Conformance harness for the side specifications:
//!   fvside jaeger   --in cases.jsonl --out obs.ndjson     (C20: datagram splitting)
//!   fvside report   --in cases.jsonl --out obs.ndjson     (C19: the three reporters)
//!   fvside codec    --in cases.jsonl --out obs.ndjson     (C12: traceparent and id codecs)
//! Cases come from TLC (Jaeger.tla, Reporters.tla, W3C.tla); the observations go back to TLC.

mod wire;

use std::borrow::Cow;
use std::collections::HashMap;
use std::io::{BufRead, Read, Write};
use std::net::{TcpListener, UdpSocket};
use std::sync::mpsc;
use std::sync::{Arc, Mutex};
use std::time::{Duration, UNIX_EPOCH};

use fastrace::collector::{EventRecord, Reporter, SpanRecord};
use fastrace::prelude::*;
use serde_json::{json, Value};

fn digits(n: u128) -> Value {
    Value::Array(n.to_string().bytes().map(|b| json!((b - b'0') as u32)).collect())
}
fn hex16(x: u64) -> String {
    format!("{:016x}", x)
}
fn hex32(x: u128) -> String {
    format!("{:032x}", x)
}

fn mix(seed: u64, a: u64, b: u64) -> u64 {
    let mut z = seed.wrapping_add(a.wrapping_mul(0x9E3779B97F4A7C15)).wrapping_add(b.wrapping_mul(0xBF58476D1CE4E5B9));
    z = (z ^ (z >> 30)).wrapping_mul(0xBF58476D1CE4E5B9);
    z = (z ^ (z >> 27)).wrapping_mul(0x94D049BB133111EB);
    z ^ (z >> 31)
}

/// MSG_PEEK | MSG_DONTWAIT (Linux)
fn libc_flags() -> i32 {
    0x2 | 0x40
}

/// A loss on loopback is believed only if it repeats: eight quick attempts, and for the first cases that
/// still look incomplete eight more with pauses (a machine under load drops datagrams in bursts).
static SLOW_RETRIES_LEFT: std::sync::atomic::AtomicI64 = std::sync::atomic::AtomicI64::new(40);
fn max_attempts(attempts_so_far: usize) -> bool {
    if attempts_so_far < 8 {
        return true;
    }
    if attempts_so_far == 8 && SLOW_RETRIES_LEFT.fetch_sub(1, std::sync::atomic::Ordering::SeqCst) <= 0 {
        return false;
    }
    if attempts_so_far >= 16 {
        return false;
    }
    std::thread::sleep(Duration::from_millis(60));
    true
}

// --------------------------------------------------------------------------------- Jaeger (C20)
struct Udp {
    sock: UdpSocket,
    got: Arc<Mutex<(Vec<Vec<u8>>, std::time::Instant)>>,
}

impl Udp {
    /// A loopback socket with a reader thread that takes datagrams off it as they arrive (so that a
    /// long batch cannot overflow the socket's receive buffer).
    fn new() -> Udp {
        let sock = UdpSocket::bind("127.0.0.1:0").unwrap();
        // as large a receive buffer as the system allows
        let _ = socket2::SockRef::from(&sock).set_recv_buffer_size(4 << 20);
        let got = Arc::new(Mutex::new((Vec::new(), std::time::Instant::now())));
        let (s2, g2) = (sock.try_clone().unwrap(), got.clone());
        std::thread::spawn(move || {
            let mut buf = vec![0u8; 70000];
            loop {
                if let Ok((n, _)) = s2.recv_from(&mut buf) {
                    let mut g = g2.lock().unwrap();
                    g.0.push(buf[..n].to_vec());
                    g.1 = std::time::Instant::now();
                }
            }
        });
        Udp { sock, got }
    }
    /// Is a datagram waiting in the kernel that the reader thread has not taken yet?  (On a loaded
    /// machine the reader may not run for many milliseconds; "nothing arrived lately" alone would then end
    /// a drain early and the rest would turn up in the next one.)
    fn pending_in_kernel(&self) -> bool {
        let mut b = [std::mem::MaybeUninit::<u8>::uninit(); 1];
        socket2::SockRef::from(&self.sock).recv_with_flags(&mut b, libc_flags()).is_ok()
    }
    /// Everything that has arrived; waits until nothing has come for 6 ms and nothing is waiting in the
    /// socket (loopback delivery is synchronous with send_to: what was sent is queued - or dropped for
    /// want of buffer space - when report() returns).
    fn drain(&self) -> Vec<Vec<u8>> {
        let start = std::time::Instant::now();
        loop {
            std::thread::sleep(Duration::from_millis(1));
            if self.pending_in_kernel() {
                continue;
            }
            let mut g = self.got.lock().unwrap();
            let quiet = g.1.elapsed() >= Duration::from_millis(6) && start.elapsed() >= Duration::from_millis(6);
            if quiet && !self.pending_in_kernel() {
                return std::mem::take(&mut g.0);
            }
        }
    }
}

/// A record whose ids and times have a fixed encoded width, so that its encoded size depends on
/// the length of its name only.
fn sized_record(idx: usize, name_len: usize) -> SpanRecord {
    let tag = format!("{:05}", idx);
    let mut name = tag.clone();
    while name.len() < name_len {
        name.push('x');
    }
    SpanRecord {
        trace_id: TraceId((0x4000_0000_0000_0000u128 << 64) | 0x4000_0000_0000_0000u128 | idx as u128),
        span_id: SpanId(0x4000_0000_0000_0000 | idx as u64),
        parent_id: SpanId(0x4000_0000_0000_0000),
        begin_time_unix_ns: 1_700_000_000_000_000_000,
        duration_ns: 1_000_000_000,
        name: Cow::Owned(name),
        properties: vec![],
        events: vec![],
    }
}

fn varint_len(mut n: usize) -> usize {
    let mut l = 1;
    while n >= 0x80 {
        n >>= 7;
        l += 1;
    }
    l
}

fn report_with_timeout<R: Reporter>(mut rep: R, recs: Vec<SpanRecord>, ms: u64) -> Option<R> {
    let (tx, rx) = mpsc::channel();
    std::thread::spawn(move || {
        rep.report(recs);
        let _ = tx.send(rep);
    });
    rx.recv_timeout(Duration::from_millis(ms)).ok()
}

fn span_names(msg: &Value) -> Vec<String> {
    // emitBatch(batch): args.f1 = Batch { f1: process, f2: list<Span> }, Span.f5 = operationName
    msg["args"]["f1"]["f2"]
        .as_array()
        .map(|a| a.iter().map(|s| s["f5"]["s"].as_str().unwrap_or("?").to_string()).collect())
        .unwrap_or_default()
}

fn jaeger_mode(inp: &str, outp: &str) -> std::io::Result<()> {
    let udp = Udp::new();
    let addr = udp.sock.local_addr().unwrap();
    let mut rep = Some(fastrace_jaeger::JaegerReporter::new(addr, "svc").unwrap());
    // size of a singleton datagram as a function of the name length: c0 + len + varint_len(len)
    let probe = report_with_timeout(rep.take().unwrap(), vec![sized_record(0, 10)], 3000).expect("probe");
    rep = Some(probe);
    let d = udp.drain();
    assert_eq!(d.len(), 1, "probe datagram");
    let c0 = d[0].len() - 10 - varint_len(10);
    let single = |len: usize| c0 + len + varint_len(len);
    let name_len_for = |target: usize| -> usize {
        let mut l = target.saturating_sub(c0 + 3).max(5);
        while single(l) < target {
            l += 1;
        }
        while single(l) > target && l > 5 {
            l -= 1;
        }
        l
    };
    let mut out = std::io::BufWriter::new(std::fs::File::create(outp)?);
    for line in std::io::BufReader::new(std::fs::File::open(inp)?).lines() {
        let line = line?;
        let Ok(case) = serde_json::from_str::<Value>(&line) else { continue };
        let classes: Vec<u64> = case["sz"].as_array().map(|a| a.iter().filter_map(|x| x.as_u64()).collect()).unwrap_or_default();
        // class c stands for a span whose own datagram has c * 100 + 699 bytes ... except that the
        // boundary classes are exact: 72 -> 7999 (largest that fits), 73 -> 8000 (smallest that does not)
        let target = |c: u64| -> usize {
            match c {
                72 => 7999,
                73 => 8000,
                _ => (c as usize) * 100 + c0.max(60) + 40,
            }
        };
        let lens: Vec<usize> = classes.iter().map(|c| name_len_for(target(*c))).collect();
        let mut attempts = 0;
        let mut obs;
        loop {
            attempts += 1;
            let recs: Vec<SpanRecord> = lens.iter().enumerate().map(|(i, l)| sized_record(i + 1, *l)).collect();
            let sizes: Vec<usize> = lens.iter().map(|l| single(*l)).collect();
            let r = report_with_timeout(rep.take().unwrap(), recs, 8000);
            let hung = r.is_none();
            rep = Some(r.unwrap_or_else(|| fastrace_jaeger::JaegerReporter::new(addr, "svc").unwrap()));
            let dgs = udp.drain();
            let mut dg = Vec::new();
            let mut bad = None;
            for d in &dgs {
                match wire::thrift_message(d) {
                    Ok(m) => {
                        let idx: Vec<usize> = span_names(&m).iter().map(|n| n[..5.min(n.len())].parse::<usize>().unwrap_or(0)).collect();
                        dg.push(json!({"len": d.len(), "idx": idx}));
                    }
                    Err(e) => bad = Some(e),
                }
            }
            let flat: Vec<usize> = dg.iter().flat_map(|d| d["idx"].as_array().unwrap().iter().map(|x| x.as_u64().unwrap() as usize)).collect();
            let want: Vec<usize> = sizes.iter().enumerate().filter(|(_, s)| **s < 8000).map(|(i, _)| i + 1).collect();
            obs = json!({"ev":"jaeger","id":case["id"],"classes":classes,"sizes":sizes,"datagrams":dg,"hung":hung,
                         "malformed":bad,"attempts":attempts});
            // UDP on loopback may drop under pressure: an anomaly is believed only if it repeats
            if flat == want || hung || !max_attempts(attempts) {
                break;
            }
        }
        writeln!(out, "{}", obs)?;
        if obs["hung"] == true {
            // the reporter thread is still spinning and keeps sending: nothing after this can be trusted
            break;
        }
    }
    out.flush()
}

// --------------------------------------------------------------------------------- reporters (C19)
fn id_bytes(pat: &str, n: usize, salt: u64) -> Vec<u8> {
    match pat {
        "zero" => vec![0; n],
        "one" => {
            let mut v = vec![0; n];
            v[n - 1] = 1;
            v
        }
        "ff" => vec![0xff; n],
        "7f" => {
            let mut v = vec![0xff; n];
            v[0] = 0x7f;
            if n == 16 {
                v[8] = 0x7f;
            }
            v
        }
        "80" => {
            let mut v = vec![0; n];
            v[0] = 0x80;
            if n == 16 {
                v[8] = 0x80;
            }
            v
        }
        _ => (0..n).map(|i| mix(salt, i as u64, 7) as u8).collect(),
    }
}

fn be_u128(b: &[u8]) -> u128 {
    b.iter().fold(0u128, |a, x| (a << 8) | *x as u128)
}

fn string_of(class: &str, salt: u64) -> String {
    match class {
        "empty" => String::new(),
        "utf8" => format!("näme-{}-\u{1F600}\u{4e2d}\u{00e9}", salt % 1000),
        "long" => "L".repeat(300 + (salt % 50) as usize),
        "quote" => format!("q\"\\\n\t{}", salt % 1000),
        // text that happens to look like a number or a boolean: it is text all the same
        "numeric" => ["007", "+15551234567", "18446744073709551615", "1.10", "1e3", "true", "0404", "-0", "False", " 12", "1_000", "NaN"][(salt % 12) as usize].to_string(),
        _ => format!("a{}", salt % 100000),
    }
}

fn build_records(case: &Value, seed: u64) -> Vec<SpanRecord> {
    let mut v = Vec::new();
    for (i, r) in case["recs"].as_array().cloned().unwrap_or_default().iter().enumerate() {
        let s = mix(seed, i as u64, 1);
        let tid = be_u128(&id_bytes(r["tid"].as_str().unwrap_or("mix"), 16, s));
        let sid = be_u128(&id_bytes(r["sid"].as_str().unwrap_or("mix"), 8, s ^ 1)) as u64;
        let pid = be_u128(&id_bytes(r["pid"].as_str().unwrap_or("mix"), 8, s ^ 2)) as u64;
        let begin = 1_600_000_000_000_000_000u64 + mix(s, 3, 3) % 200_000_000_000_000_000;
        let dur = match r["dur"].as_str().unwrap_or("ms") {
            "zero" => 0,
            "sub" => mix(s, 4, 4) % 1000,
            "big" => 3_600_000_000_000 + mix(s, 4, 4) % 1_000_000,
            _ => 1_000_000 + mix(s, 4, 4) % 999_000,
        };
        let np = r["props"].as_u64().unwrap_or(0);
        let dupkey = r["dupkey"].as_bool().unwrap_or(false);
        let mut props: Vec<(Cow<'static, str>, Cow<'static, str>)> = (0..np)
            .map(|k| {
                let key = if dupkey && k > 0 { "k0".to_string() } else { format!("k{k}") };
                (Cow::Owned(key), Cow::Owned(string_of(r["val"].as_str().unwrap_or("ascii"), mix(s, 5, k))))
            })
            .collect();
        if r["keyclass"].as_str() == Some("utf8") && !props.is_empty() {
            props[0].0 = Cow::Owned("ключ".to_string());
        }
        let ne = r["events"].as_u64().unwrap_or(0);
        let events = (0..ne)
            .map(|k| EventRecord {
                name: Cow::Owned(string_of(r["name"].as_str().unwrap_or("ascii"), mix(s, 6, k))),
                // records are arbitrary: an event may carry a time outside its span's interval (every fourth
                // one lies before the begin, some after the end)
                timestamp_unix_ns: match mix(s, 9, k) % 8 {
                    0 | 4 => begin - 1 - mix(s, 7, k) % 5_000,
                    1 => begin + dur + 1 + mix(s, 7, k) % 5_000,
                    _ => begin + mix(s, 7, k) % (dur.max(1)),
                },
                properties: (0..(k % 3)).map(|j| (Cow::Owned(format!("ek{j}")), Cow::Owned(string_of("ascii", mix(s, 8, j))))).collect(),
            })
            .collect();
        v.push(SpanRecord {
            trace_id: TraceId(tid),
            span_id: SpanId(sid),
            parent_id: SpanId(pid),
            begin_time_unix_ns: begin,
            duration_ns: dur,
            name: Cow::Owned(string_of(r["name"].as_str().unwrap_or("ascii"), s)),
            properties: props,
            events,
        });
    }
    v
}

fn kvs(p: &[(Cow<'static, str>, Cow<'static, str>)]) -> Value {
    Value::Array(p.iter().map(|(k, v)| json!([k, v])).collect())
}

fn rec_in(r: &SpanRecord) -> Value {
    json!({
        "trace": hex32(r.trace_id.0), "hi": hex16((r.trace_id.0 >> 64) as u64), "lo": hex16(r.trace_id.0 as u64),
        "span": hex16(r.span_id.0), "parent": hex16(r.parent_id.0), "name": r.name,
        "begin": digits(r.begin_time_unix_ns as u128), "dur": digits(r.duration_ns as u128),
        "props": kvs(&r.properties),
        "events": r.events.iter().map(|e| json!({"name": e.name, "ts": digits(e.timestamp_unix_ns as u128), "props": kvs(&e.properties)})).collect::<Vec<_>>(),
    })
}

fn ti64(v: &Value) -> Option<i64> {
    v["i"].as_str()?.parse().ok()
}
fn tstr(v: &Value) -> String {
    v["s"].as_str().unwrap_or("\u{0}?").to_string()
}
fn ttags(v: &Value) -> Value {
    // Tag { 1: key, 2: vType, 3: vStr, ... }
    Value::Array(
        v.as_array()
            .map(|a| a.iter().map(|t| json!([tstr(&t["f1"]), tstr(&t["f3"]), ti64(&t["f2"]).unwrap_or(-1)])).collect())
            .unwrap_or_default(),
    )
}

fn jaeger_out(msgs: &[Value]) -> Value {
    let mut spans = Vec::new();
    for m in msgs {
        for s in m["args"]["f1"]["f2"].as_array().cloned().unwrap_or_default() {
            let g = |k: &str| ti64(&s[k]).map(|x| hex16(x as u64)).unwrap_or_else(|| "missing".into());
            let d = |k: &str| ti64(&s[k]).map(|x| if x >= 0 { digits(x as u128) } else { json!(["neg"]) }).unwrap_or(json!(["missing"]));
            spans.push(json!({
                "lo": g("f1"), "hi": g("f2"), "span": g("f3"), "parent": g("f4"), "name": tstr(&s["f5"]),
                "flags": ti64(&s["f7"]).unwrap_or(-1), "start": d("f8"), "dur": d("f9"),
                "tags": ttags(&s["f10"]),
                "logs": s["f11"].as_array().map(|a| a.iter().map(|l| json!({"ts": ti64(&l["f1"]).map(|x| digits(x.max(0) as u128)).unwrap_or(json!([])), "fields": ttags(&l["f2"])})).collect::<Vec<_>>()).unwrap_or_default(),
            }));
        }
    }
    json!({"spans": spans, "service": msgs.first().map(|m| tstr(&m["args"]["f1"]["f1"]["f1"])).unwrap_or_default(),
           "method": msgs.first().map(|m| m["name"].clone()).unwrap_or(Value::Null), "mtype": msgs.first().map(|m| m["type"].clone()).unwrap_or(Value::Null)})
}

fn mp_get<'a>(m: &'a Value, key: &str) -> Option<&'a Value> {
    m["map"].as_array()?.iter().find(|kv| kv[0]["s"].as_str() == Some(key)).map(|kv| &kv[1])
}

fn datadog_out(body: &Value) -> Value {
    // v0.4: array of traces, each an array of span maps
    let mut spans = Vec::new();
    let mut shape_ok = body.is_array();
    for tr in body.as_array().cloned().unwrap_or_default() {
        if !tr.is_array() {
            shape_ok = false;
        }
        for s in tr.as_array().cloned().unwrap_or_default() {
            let u = |k: &str| mp_get(&s, k).and_then(|v| v["i"].as_str().and_then(|x| x.parse::<i128>().ok())).map(|x| hex16(x as u64)).unwrap_or_else(|| "missing".into());
            let d = |k: &str| mp_get(&s, k).and_then(|v| v["i"].as_str().and_then(|x| x.parse::<u128>().ok())).map(digits).unwrap_or(json!(["missing"]));
            let st = |k: &str| mp_get(&s, k).map(tstr).unwrap_or_else(|| "\u{0}missing".into());
            let mut meta: Vec<(String, String)> = mp_get(&s, "meta")
                .and_then(|m| m["map"].as_array().cloned())
                .unwrap_or_default()
                .iter()
                .map(|kv| (tstr(&kv[0]), tstr(&kv[1])))
                .collect();
            meta.sort();
            spans.push(json!({
                "name": st("name"), "service": st("service"), "type": st("type"), "resource": st("resource"),
                "start": d("start"), "dur": d("duration"), "error": mp_get(&s, "error_code").map(|v| v["i"].clone()).unwrap_or(Value::Null),
                "span": u("span_id"), "trace": u("trace_id"), "parent": u("parent_id"),
                "meta": meta.iter().map(|(k, v)| json!([k, v])).collect::<Vec<_>>(),
                "has_meta": mp_get(&s, "meta").is_some(),
            }));
        }
    }
    json!({"spans": spans, "shape_ok": shape_ok})
}

/// A minimal HTTP/1.1 listener: hands each request (path, headers, body) to the channel.
fn http_listener() -> (std::net::SocketAddr, mpsc::Receiver<(String, HashMap<String, String>, Vec<u8>)>) {
    let l = TcpListener::bind("127.0.0.1:0").unwrap();
    let addr = l.local_addr().unwrap();
    let (tx, rx) = mpsc::channel();
    std::thread::spawn(move || {
        for conn in l.incoming() {
            let Ok(mut c) = conn else { continue };
            let _ = c.set_read_timeout(Some(Duration::from_secs(5)));
            let mut buf = Vec::new();
            let mut tmp = [0u8; 65536];
            let mut head_end = None;
            let mut clen = 0usize;
            let mut path = String::new();
            let mut headers = HashMap::new();
            loop {
                match c.read(&mut tmp) {
                    Ok(0) | Err(_) => break,
                    Ok(n) => buf.extend_from_slice(&tmp[..n]),
                }
                if head_end.is_none() {
                    if let Some(p) = buf.windows(4).position(|w| w == b"\r\n\r\n") {
                        head_end = Some(p + 4);
                        let head = String::from_utf8_lossy(&buf[..p]).to_string();
                        let mut lines = head.split("\r\n");
                        path = lines.next().unwrap_or("").to_string();
                        for l in lines {
                            if let Some((k, v)) = l.split_once(':') {
                                headers.insert(k.trim().to_ascii_lowercase(), v.trim().to_string());
                            }
                        }
                        clen = headers.get("content-length").and_then(|v| v.parse().ok()).unwrap_or(0);
                    }
                }
                if let Some(h) = head_end {
                    if buf.len() >= h + clen {
                        break;
                    }
                }
            }
            let body = head_end.map(|h| buf[h..(h + clen).min(buf.len())].to_vec()).unwrap_or_default();
            let _ = c.write_all(b"HTTP/1.1 200 OK\r\nContent-Length: 2\r\nConnection: close\r\n\r\n{}");
            let _ = tx.send((path, headers, body));
        }
    });
    (addr, rx)
}

#[derive(Debug, Clone, Default)]
struct Capture(Arc<Mutex<Vec<Value>>>);

impl opentelemetry_sdk::trace::SpanExporter for Capture {
    fn export(&self, batch: Vec<opentelemetry_sdk::trace::SpanData>) -> impl std::future::Future<Output = opentelemetry_sdk::error::OTelSdkResult> + Send {
        let ns = |t: std::time::SystemTime| digits(t.duration_since(UNIX_EPOCH).map(|d| d.as_nanos()).unwrap_or(0));
        let attrs = |a: &[opentelemetry::KeyValue]| Value::Array(a.iter().map(|kv| json!([kv.key.as_str(), kv.value.as_str()])).collect());
        let mut out = self.0.lock().unwrap();
        for s in batch {
            out.push(json!({
                "trace": format!("{:032x}", u128::from_be_bytes(s.span_context.trace_id().to_bytes())),
                "span": format!("{:016x}", u64::from_be_bytes(s.span_context.span_id().to_bytes())),
                "parent": format!("{:016x}", u64::from_be_bytes(s.parent_span_id.to_bytes())),
                "name": s.name, "start": ns(s.start_time), "end": ns(s.end_time),
                "attrs": attrs(&s.attributes),
                "events": s.events.events.iter().map(|e| json!({"name": e.name, "ts": ns(e.timestamp), "attrs": attrs(&e.attributes)})).collect::<Vec<_>>(),
                "dropped": s.dropped_attributes_count,
            }));
        }
        async { Ok(()) }
    }
}

fn report_mode(inp: &str, outp: &str, seed: u64) -> std::io::Result<()> {
    let udp = Udp::new();
    let uaddr = udp.sock.local_addr().unwrap();
    let (haddr, hrx) = http_listener();
    let mut out = std::io::BufWriter::new(std::fs::File::create(outp)?);
    for (n, line) in std::io::BufReader::new(std::fs::File::open(inp)?).lines().enumerate() {
        let line = line?;
        let Ok(case) = serde_json::from_str::<Value>(&line) else { continue };
        let recs = build_records(&case, seed.wrapping_add(n as u64));
        let input: Vec<Value> = recs.iter().map(rec_in).collect();
        // ---- Jaeger
        let mut jr = fastrace_jaeger::JaegerReporter::new(uaddr, "svc-j").unwrap();
        let mut best: Option<Value> = None;
        let mut attempts = 0;
        loop {
            attempts += 1;
            jr.report(recs.clone());
            let dgs = udp.drain();
            let mut msgs = Vec::new();
            let mut err = None;
            for d in &dgs {
                match wire::thrift_message(d) {
                    Ok(m) => msgs.push(m),
                    Err(e) => err = Some(e),
                }
            }
            let o = jaeger_out(&msgs);
            let complete = o["spans"].as_array().map(|a| a.len()).unwrap_or(0) == recs.len();
            best = Some(json!({"ev":"report","kind":"jaeger","id":case["id"],"in":input,"out":o,"error":err,"datagrams":dgs.len(),"attempts":attempts}));
            if complete || !max_attempts(attempts) {
                break;
            }
        }
        writeln!(out, "{}", best.unwrap())?;
        // ---- Datadog
        let mut dr = fastrace_datadog::DatadogReporter::new(haddr, "svc-d", "res", "web");
        dr.report(recs.clone());
        let obs = if recs.is_empty() {
            match hrx.recv_timeout(Duration::from_millis(50)) {
                Ok(_) => json!({"ev":"report","kind":"datadog","id":case["id"],"in":input,"out":{"spans":[],"shape_ok":true},"error":Value::Null,"requests":1}),
                Err(_) => json!({"ev":"report","kind":"datadog","id":case["id"],"in":input,"out":{"spans":[],"shape_ok":true},"error":Value::Null,"requests":0}),
            }
        } else {
            match hrx.recv_timeout(Duration::from_secs(5)) {
                Ok((path, headers, body)) => match wire::msgpack(&body) {
                    Ok(v) => json!({"ev":"report","kind":"datadog","id":case["id"],"in":input,"out":datadog_out(&v),"error":Value::Null,
                                     "path":path,"ctype":headers.get("content-type"),"requests":1}),
                    Err(e) => json!({"ev":"report","kind":"datadog","id":case["id"],"in":input,"out":{"spans":[],"shape_ok":false},"error":e,"requests":1}),
                },
                Err(_) => json!({"ev":"report","kind":"datadog","id":case["id"],"in":input,"out":{"spans":[],"shape_ok":false},"error":"no request","requests":0}),
            }
        };
        writeln!(out, "{}", obs)?;
        // ---- OpenTelemetry
        let cap = Capture::default();
        let mut or = fastrace_opentelemetry::OpenTelemetryReporter::new(
            cap.clone(),
            opentelemetry::trace::SpanKind::Server,
            Cow::Owned(opentelemetry_sdk::Resource::builder().build()),
            opentelemetry::InstrumentationScope::builder("fv").build(),
        );
        or.report(recs.clone());
        let got = cap.0.lock().unwrap().clone();
        writeln!(out, "{}", json!({"ev":"report","kind":"otel","id":case["id"],"in":input,"out":{"spans":got},"error":Value::Null}))?;
    }
    out.flush()
}

// --------------------------------------------------------------------------------- codecs (C12)
fn codec_mode(inp: &str, outp: &str) -> std::io::Result<()> {
    std::panic::set_hook(Box::new(|_| {}));
    let mut out = std::io::BufWriter::new(std::fs::File::create(outp)?);
    for line in std::io::BufReader::new(std::fs::File::open(inp)?).lines() {
        let line = line?;
        let Ok(case) = serde_json::from_str::<Value>(&line) else { continue };
        let chars = |s: &str| Value::Array(s.chars().map(|c| json!(c.to_string())).collect());
        match case["op"].as_str().unwrap_or("") {
            "decode" => {
                let text = case["text"].as_str().unwrap_or("");
                let r = std::panic::catch_unwind(|| SpanContext::decode_w3c_traceparent(text));
                let o = match r {
                    Err(_) => json!({"panic": true}),
                    Ok(None) => json!({"panic": false, "some": false}),
                    Ok(Some(c)) => json!({"panic": false, "some": true, "trace": chars(&hex32(c.trace_id.0)), "span": chars(&hex16(c.span_id.0)), "smp": c.sampled}),
                };
                writeln!(out, "{}", json!({"ev":"decode","id":case["id"],"fields":case["fields"],"cls":case["cls"],"out":o}))?;
            }
            "roundtrip" => {
                let t = u128::from_str_radix(case["trace"].as_str().unwrap_or("0"), 16).unwrap_or(0);
                let s = u64::from_str_radix(case["span"].as_str().unwrap_or("0"), 16).unwrap_or(0);
                let smp = case["smp"].as_bool().unwrap_or(true);
                let ctx = SpanContext::new(TraceId(t), SpanId(s)).sampled(smp);
                let enc = ctx.encode_w3c_traceparent();
                let dec = std::panic::catch_unwind(|| SpanContext::decode_w3c_traceparent(&enc)).ok().flatten();
                let disp_t = TraceId(t).to_string();
                let disp_s = SpanId(s).to_string();
                let back_t = disp_t.parse::<TraceId>().ok().map(|x| hex32(x.0));
                let back_s = disp_s.parse::<SpanId>().ok().map(|x| hex16(x.0));
                let ser_t = serde_json::to_string(&TraceId(t)).unwrap_or_default();
                let ser_s = serde_json::to_string(&SpanId(s)).unwrap_or_default();
                // through a borrowing deserializer, through an owned value, and through a reader
                let all_t = [
                    serde_json::from_str::<TraceId>(&ser_t).ok(),
                    serde_json::from_value::<TraceId>(Value::String(disp_t.clone())).ok(),
                    serde_json::from_reader::<_, TraceId>(ser_t.as_bytes()).ok(),
                ];
                let all_s = [
                    serde_json::from_str::<SpanId>(&ser_s).ok(),
                    serde_json::from_value::<SpanId>(Value::String(disp_s.clone())).ok(),
                    serde_json::from_reader::<_, SpanId>(ser_s.as_bytes()).ok(),
                ];
                let de_t = if all_t.iter().all(|x| x.is_some()) { all_t[0].map(|x| hex32(x.0)) } else { None };
                let de_s = if all_s.iter().all(|x| x.is_some() && *x == all_s[0]) { all_s[0].map(|x| hex16(x.0)) } else { None };
                let de_t = if all_t.iter().all(|x| *x == all_t[0]) { de_t } else { None };
                // ... and through a format that is not human readable (MessagePack): still the hex string, still readable
                let mp_t = rmp_serde::to_vec(&TraceId(t)).ok();
                let mp_s = rmp_serde::to_vec(&SpanId(s)).ok();
                let mp_ok = match (&mp_t, &mp_s) {
                    (Some(bt), Some(bs)) => {
                        rmp_serde::from_slice::<String>(bt).ok() == Some(disp_t.clone())
                            && rmp_serde::from_slice::<String>(bs).ok() == Some(disp_s.clone())
                            && rmp_serde::from_slice::<TraceId>(bt).ok() == Some(TraceId(t))
                            && rmp_serde::from_slice::<SpanId>(bs).ok() == Some(SpanId(s))
                    }
                    _ => false,
                };
                writeln!(out, "{}", json!({"ev":"roundtrip","id":case["id"],"trace":hex32(t),"span":hex16(s),"smp":smp,
                    "enc":chars(&enc),"enclen":enc.chars().count(),
                    "dec": dec.map(|c| json!({"some":true,"trace":hex32(c.trace_id.0),"span":hex16(c.span_id.0),"smp":c.sampled})).unwrap_or(json!({"some":false})),
                    "disp_t":disp_t,"disp_s":disp_s,"back_t":back_t,"back_s":back_s,
                    "ser_t":ser_t,"ser_s":ser_s,"de_t":de_t,"de_s":de_s,"mp_ok":mp_ok}))?;
            }
            _ => {}
        }
    }
    out.flush()
}

fn main() {
    let args: Vec<String> = std::env::args().collect();
    let mut kv: HashMap<String, String> = HashMap::new();
    let mut i = 2;
    while i + 1 < args.len() {
        if let Some(k) = args[i].strip_prefix("--") {
            kv.insert(k.to_string(), args[i + 1].clone());
        }
        i += 2;
    }
    let seed = kv.get("seed").and_then(|s| s.parse().ok()).unwrap_or(1u64);
    let r = match args.get(1).map(|s| s.as_str()) {
        Some("jaeger") => jaeger_mode(&kv["in"], &kv["out"]),
        Some("report") => report_mode(&kv["in"], &kv["out"], seed),
        Some("codec") => codec_mode(&kv["in"], &kv["out"]),
        _ => {
            eprintln!("usage: fvside <jaeger|report|codec> --in F --out F");
            std::process::exit(2);
        }
    };
    if let Err(e) = r {
        eprintln!("fvside: {e}");
        std::process::exit(2);
    }
}
