//! Independent decoders for the wire formats of the bundled reporters: Thrift compact protocol
//! (Jaeger emitBatch) and MessagePack (Datadog v0.4). Neither `thrift_codec` nor `rmp` is used
//! here: a decoding error is the well-formedness verdict of C19.

use serde_json::{json, Map, Value};

pub struct Cur<'a> {
    pub b: &'a [u8],
    pub p: usize,
}

type R<T> = Result<T, String>;

impl<'a> Cur<'a> {
    pub fn new(b: &'a [u8]) -> Self {
        Cur { b, p: 0 }
    }
    fn u8(&mut self) -> R<u8> {
        let v = *self.b.get(self.p).ok_or("unexpected end")?;
        self.p += 1;
        Ok(v)
    }
    fn take(&mut self, n: usize) -> R<&'a [u8]> {
        if self.p + n > self.b.len() {
            return Err(format!("need {n} bytes at {}", self.p));
        }
        let s = &self.b[self.p..self.p + n];
        self.p += n;
        Ok(s)
    }
    fn varint(&mut self) -> R<u64> {
        let mut v: u64 = 0;
        let mut shift = 0;
        loop {
            let b = self.u8()?;
            if shift >= 64 {
                return Err("varint too long".into());
            }
            v |= ((b & 0x7f) as u64) << shift;
            if b & 0x80 == 0 {
                return Ok(v);
            }
            shift += 7;
        }
    }
    fn zigzag(&mut self) -> R<i64> {
        let v = self.varint()?;
        Ok(((v >> 1) as i64) ^ -((v & 1) as i64))
    }
}

// ------------------------------------------------------------------------- Thrift compact
/// Values are rendered as JSON: integers as {"i": "<decimal>"} (64-bit safe), binary as
/// {"s": "<utf8>"} or {"bin": [..]}, lists as arrays, structs as {"f<id>": value}.
fn t_value(c: &mut Cur, ty: u8, depth: usize) -> R<Value> {
    if depth > 32 {
        return Err("too deep".into());
    }
    Ok(match ty {
        1 => json!({"b": true}),
        2 => json!({"b": false}),
        3 => json!({"i": (c.u8()? as i8).to_string()}),
        4 | 5 | 6 => json!({"i": c.zigzag()?.to_string()}),
        7 => {
            let s = c.take(8)?;
            json!({"d": f64::from_le_bytes(s.try_into().unwrap())})
        }
        8 => {
            let n = c.varint()? as usize;
            let s = c.take(n)?;
            match std::str::from_utf8(s) {
                Ok(t) => json!({"s": t}),
                Err(_) => json!({"bin": s}),
            }
        }
        9 | 10 => {
            let h = c.u8()?;
            let et = h & 0x0f;
            let mut n = (h >> 4) as usize;
            if n == 15 {
                n = c.varint()? as usize;
            }
            let mut v = Vec::new();
            for _ in 0..n {
                let e = if et == 1 || et == 2 {
                    // booleans inside collections are one byte each
                    let b = c.u8()?;
                    json!({"b": b == 1})
                } else {
                    t_value(c, et, depth + 1)?
                };
                v.push(e);
            }
            Value::Array(v)
        }
        11 => {
            let n = c.varint()? as usize;
            let mut v = Vec::new();
            if n > 0 {
                let kv = c.u8()?;
                for _ in 0..n {
                    let k = t_value(c, kv >> 4, depth + 1)?;
                    let x = t_value(c, kv & 0x0f, depth + 1)?;
                    v.push(json!([k, x]));
                }
            }
            json!({"map": v})
        }
        12 => t_struct(c, depth + 1)?,
        _ => return Err(format!("unknown thrift type {ty}")),
    })
}

fn t_struct(c: &mut Cur, depth: usize) -> R<Value> {
    let mut m = Map::new();
    let mut last: i64 = 0;
    loop {
        let h = c.u8()?;
        if h == 0 {
            break;
        }
        let ty = h & 0x0f;
        let delta = (h >> 4) as i64;
        let id = if delta == 0 { c.zigzag()? } else { last + delta };
        last = id;
        let v = t_value(c, ty, depth)?;
        if m.insert(format!("f{id}"), v).is_some() {
            return Err(format!("field {id} twice"));
        }
    }
    Ok(Value::Object(m))
}

/// Decodes one Thrift compact message: {"name", "type", "seq", "args": struct}; the whole input
/// must be consumed.
pub fn thrift_message(b: &[u8]) -> R<Value> {
    let mut c = Cur::new(b);
    if c.u8()? != 0x82 {
        return Err("not the compact protocol".into());
    }
    let vt = c.u8()?;
    if vt & 0x1f != 1 {
        return Err("bad version".into());
    }
    let ty = vt >> 5;
    let seq = c.varint()?;
    let n = c.varint()? as usize;
    let name = std::str::from_utf8(c.take(n)?).map_err(|e| e.to_string())?.to_string();
    let args = t_struct(&mut c, 0)?;
    if c.p != b.len() {
        return Err(format!("{} trailing bytes", b.len() - c.p));
    }
    Ok(json!({"name": name, "type": ty, "seq": seq, "args": args}))
}

// ------------------------------------------------------------------------- MessagePack
fn be(c: &mut Cur, n: usize) -> R<u64> {
    let s = c.take(n)?;
    let mut v = 0u64;
    for x in s {
        v = (v << 8) | *x as u64;
    }
    Ok(v)
}

fn sext(v: u64, n: usize) -> i64 {
    let sh = 64 - 8 * n as u32;
    ((v << sh) as i64) >> sh
}

fn m_str(c: &mut Cur, n: usize) -> R<Value> {
    let s = c.take(n)?;
    Ok(json!({"s": std::str::from_utf8(s).map_err(|_| "string is not UTF-8".to_string())?}))
}

fn m_arr(c: &mut Cur, n: usize, depth: usize) -> R<Value> {
    let mut v = Vec::new();
    for _ in 0..n {
        v.push(m_value(c, depth + 1)?);
    }
    Ok(Value::Array(v))
}

fn m_map(c: &mut Cur, n: usize, depth: usize) -> R<Value> {
    let mut v = Vec::new();
    for _ in 0..n {
        let k = m_value(c, depth + 1)?;
        let x = m_value(c, depth + 1)?;
        v.push(json!([k, x]));
    }
    Ok(json!({"map": v}))
}

/// Integers are rendered as {"i": "<decimal>"}.
pub fn m_value(c: &mut Cur, depth: usize) -> R<Value> {
    if depth > 32 {
        return Err("too deep".into());
    }
    let t = c.u8()?;
    Ok(match t {
        0x00..=0x7f => json!({"i": (t as u64).to_string()}),
        0x80..=0x8f => m_map(c, (t & 0x0f) as usize, depth)?,
        0x90..=0x9f => m_arr(c, (t & 0x0f) as usize, depth)?,
        0xa0..=0xbf => m_str(c, (t & 0x1f) as usize)?,
        0xc0 => Value::Null,
        0xc2 => json!({"b": false}),
        0xc3 => json!({"b": true}),
        0xc4 | 0xc5 | 0xc6 => {
            let n = be(c, 1 << (t - 0xc4))? as usize;
            json!({"bin": c.take(n)?})
        }
        0xca => json!({"d": f32::from_bits(be(c, 4)? as u32) as f64}),
        0xcb => json!({"d": f64::from_bits(be(c, 8)?)}),
        0xcc..=0xcf => json!({"i": be(c, 1 << (t - 0xcc))?.to_string()}),
        0xd0..=0xd3 => {
            let n = 1usize << (t - 0xd0);
            json!({"i": sext(be(c, n)?, n).to_string()})
        }
        0xd9 => {
            let n = be(c, 1)? as usize;
            m_str(c, n)?
        }
        0xda => {
            let n = be(c, 2)? as usize;
            m_str(c, n)?
        }
        0xdb => {
            let n = be(c, 4)? as usize;
            m_str(c, n)?
        }
        0xdc => {
            let n = be(c, 2)? as usize;
            m_arr(c, n, depth)?
        }
        0xdd => {
            let n = be(c, 4)? as usize;
            m_arr(c, n, depth)?
        }
        0xde => {
            let n = be(c, 2)? as usize;
            m_map(c, n, depth)?
        }
        0xdf => {
            let n = be(c, 4)? as usize;
            m_map(c, n, depth)?
        }
        0xe0..=0xff => json!({"i": (t as i8).to_string()}),
        _ => return Err(format!("unsupported msgpack type {t:#x}")),
    })
}

pub fn msgpack(b: &[u8]) -> R<Value> {
    let mut c = Cur::new(b);
    let v = m_value(&mut c, 0)?;
    if c.p != b.len() {
        return Err(format!("{} trailing bytes", b.len() - c.p));
    }
    Ok(v)
}
