#!/bin/sh
# Builds the harness from files on disk only (offline) and checks that the tools answer.
set -e
cd "$(dirname "$0")"
export CARGO_NET_OFFLINE=true
[ -f harness/Cargo.lock ] || cp /repo/Cargo.lock harness/Cargo.lock
(cd harness && cargo build --offline 2>&1 | tail -3)
[ -f harness-off/Cargo.lock ] || cp /repo/Cargo.lock harness-off/Cargo.lock
(cd harness-off && cargo build --offline 2>&1 | tail -3)
[ -f sideharness/Cargo.lock ] || cp /repo/Cargo.lock sideharness/Cargo.lock
(cd sideharness && cargo build --offline 2>&1 | tail -3)
[ -f macroharness/Cargo.lock ] || cp /repo/Cargo.lock macroharness/Cargo.lock
[ -f macroharness/src/gen.rs ] || printf 'pub fn run_all() -> Vec<serde_json::Value> { vec![] }\n' > macroharness/src/gen.rs
(cd macroharness && cargo build --offline 2>&1 | tail -3)
tlc -h >/dev/null 2>&1 || true
mkdir -p out evidence
echo "setup ok"
