//! Shared runtime of the harness: the event log, the hook callback, gates on which actors park,
//! and the capturing reporter.

use std::collections::HashMap;
use std::sync::atomic::{AtomicBool, AtomicU64, AtomicUsize, Ordering};
use std::sync::mpsc;
use std::sync::{Arc, Condvar, Mutex, OnceLock};
use std::time::{Duration, Instant, SystemTime, UNIX_EPOCH};

use fastrace::collector::{Reporter, SpanRecord};
use fastrace::verif::{self, Point};
use serde_json::{json, Value};

#[derive(Debug, Clone, Copy, PartialEq, Eq, Hash)]
pub enum Role {
    Thread(usize),
    Collector,
}

#[derive(Debug)]
pub enum StopKind {
    Park(&'static str),
    Done,
}

#[derive(Debug)]
pub struct Stop {
    pub role: Role,
    pub kind: StopKind,
}

#[derive(Default)]
pub struct Gate {
    open: Mutex<bool>,
    cv: Condvar,
}

impl Gate {
    pub fn wait(&self) {
        let mut g = self.open.lock().unwrap();
        while !*g {
            g = self.cv.wait(g).unwrap();
        }
        *g = false;
    }
    pub fn release(&self) {
        *self.open.lock().unwrap() = true;
        self.cv.notify_all();
    }
}

/// What the hooks observed during the call in progress on one thread.
#[derive(Default, Clone, Debug)]
pub struct Acc {
    pub last_kind: &'static str,
    pub last_cids: Vec<usize>,
    pub last_forced: bool,
    pub start_cid: Option<usize>,
    pub refused: bool,
    pub dropped: bool,
    pub pushes: usize,
}

pub struct Shared {
    pub log: Mutex<Vec<String>>,
    pub seq: AtomicU64,
    pub stops: Mutex<Option<mpsc::Sender<Stop>>>,
    pub gates: Mutex<HashMap<Role, Arc<Gate>>>,
    pub chan_thread: Mutex<HashMap<usize, usize>>,
    pub granted: Mutex<Option<usize>>, // the thread actor that currently runs (steered mode)
    pub steer: AtomicBool,             // park at hook points
    pub free: AtomicBool,              // free-running: attribute by OS thread
    pub acc: Mutex<HashMap<usize, Acc>>,
    pub parked: Mutex<HashMap<usize, usize>>, // thread -> commands in its overflow list
    pub t0: Instant,
    pub w0_ns: u128,
    pub in_cycle: AtomicBool,
    pub hook_count: AtomicUsize,
    pub op_sleep_us: AtomicU64,
    pub report_gate: AtomicBool,       // the reporter waits inside report() while this is set
    pub in_report: AtomicBool,
    pub reentrant: AtomicBool,         // free-running: the reporter traces itself now and then
    pub nrep: AtomicUsize,
    pub nrecs: AtomicUsize,            // records the reporter has been given so far
    pub last_rec_us: AtomicU64,        // when the last non-empty batch arrived
}

pub fn shared() -> &'static Shared {
    static S: OnceLock<Shared> = OnceLock::new();
    S.get_or_init(|| Shared {
        log: Mutex::new(Vec::new()),
        seq: AtomicU64::new(0),
        stops: Mutex::new(None),
        gates: Mutex::new(HashMap::new()),
        chan_thread: Mutex::new(HashMap::new()),
        granted: Mutex::new(None),
        steer: AtomicBool::new(false),
        free: AtomicBool::new(false),
        acc: Mutex::new(HashMap::new()),
        parked: Mutex::new(HashMap::new()),
        t0: Instant::now(),
        w0_ns: SystemTime::now().duration_since(UNIX_EPOCH).unwrap().as_nanos(),
        in_cycle: AtomicBool::new(false),
        hook_count: AtomicUsize::new(0),
        op_sleep_us: AtomicU64::new(0),
        report_gate: AtomicBool::new(false),
        in_report: AtomicBool::new(false),
        reentrant: AtomicBool::new(false),
        nrep: AtomicUsize::new(0),
        nrecs: AtomicUsize::new(0),
        last_rec_us: AtomicU64::new(0),
    })
}

thread_local! {
    /// free-running mode: which harness thread am I
    pub static ME: std::cell::Cell<Option<usize>> = const { std::cell::Cell::new(None) };
}

pub fn mono_us() -> u64 {
    shared().t0.elapsed().as_micros() as u64
}

pub fn wall_us() -> i64 {
    let now = SystemTime::now().duration_since(UNIX_EPOCH).unwrap().as_nanos();
    ((now as i128 - shared().w0_ns as i128) / 1000) as i64
}

/// Appends one event to the log. The sequence number is taken under the log's lock, so the order
/// of lines is the order of tickets.
pub fn emit(mut v: Value) {
    let s = shared();
    let mut log = s.log.lock().unwrap();
    let n = s.seq.fetch_add(1, Ordering::SeqCst);
    v["seq"] = json!(n);
    log.push(v.to_string());
}

pub fn take_log() -> Vec<String> {
    std::mem::take(&mut *shared().log.lock().unwrap())
}

pub fn gate(role: Role) -> Arc<Gate> {
    shared().gates.lock().unwrap().entry(role).or_default().clone()
}

pub fn post(role: Role, kind: StopKind) {
    if let Some(tx) = shared().stops.lock().unwrap().as_ref() {
        let _ = tx.send(Stop { role, kind });
    }
}

thread_local! {
    /// the scheduler's own thread must never park
    pub static IS_SCHED: std::cell::Cell<bool> = const { std::cell::Cell::new(false) };
}

fn park(role: Role, what: &'static str) {
    if !shared().steer.load(Ordering::SeqCst) || IS_SCHED.try_with(|c| c.get()).unwrap_or(false) {
        return;
    }
    let g = gate(role);
    post(role, StopKind::Park(what));
    g.wait();
}

fn thread_of_chan(chan: usize) -> Option<usize> {
    shared().chan_thread.lock().unwrap().get(&chan).copied()
}

fn current_thread_role() -> Option<usize> {
    if shared().free.load(Ordering::SeqCst) {
        ME.try_with(|m| m.get()).ok().flatten()
    } else {
        *shared().granted.lock().unwrap()
    }
}

/// Collect ids are reported shifted by one so that 0 can stand for "none"; the id of unsampled
/// traces (usize::MAX) is reported as 0.
pub fn cid_out(c: usize) -> usize {
    c.wrapping_add(1)
}

pub fn hex16(x: u64) -> String {
    format!("{:016x}", x)
}
pub fn hex32(x: u128) -> String {
    format!("{:032x}", x)
}

fn on_point(p: &Point) {
    let s = shared();
    s.hook_count.fetch_add(1, Ordering::Relaxed);
    match p {
        Point::Command {
            kind,
            collect_ids,
            forced,
        } => {
            if let Some(t) = current_thread_role() {
                let mut acc = s.acc.lock().unwrap();
                let a = acc.entry(t).or_default();
                a.last_kind = kind;
                a.last_cids = collect_ids.clone();
                a.last_forced = *forced;
                if *kind == "start" {
                    a.start_cid = collect_ids.first().copied();
                }
            }
        }
        Point::BeforePush { chan, .. } => {
            if let Some(t) = thread_of_chan(*chan).or_else(current_thread_role) {
                park(Role::Thread(t), "push");
            }
        }
        Point::Push { chan, via, full } => {
            let t = thread_of_chan(*chan).or_else(current_thread_role);
            if let Some(t) = t {
                let mut ev = None;
                {
                    let mut acc = s.acc.lock().unwrap();
                    let a = acc.entry(t).or_default();
                    let mut parked = s.parked.lock().unwrap();
                    let pk = parked.entry(t).or_insert(0);
                    a.pushes += 1;
                    match (*via, *full) {
                        ("replay", true) => {
                            // the replay failed: a forced value is parked behind, a plain one is dropped
                            let cids = a.last_cids.iter().map(|c| cid_out(*c)).collect::<Vec<_>>();
                            if !a.last_forced {
                                a.refused = true;
                                ev = Some(json!({"ev":"refuse","t":t,"kind":a.last_kind,"cids":cids}));
                            } else {
                                ev = Some(json!({"ev":"park","t":t,"kind":a.last_kind,"cids":cids}));
                            }
                        }
                        ("replay", false) => {
                            ev = Some(json!({"ev":"push","t":t,"kind":"replay","cids":[]}));
                        }
                        ("send", true) => {
                            a.refused = true;
                            ev = Some(json!({"ev":"refuse","t":t,"kind":a.last_kind,
                                "cids":a.last_cids.iter().map(|c| cid_out(*c)).collect::<Vec<_>>()}));
                        }
                        ("force", true) => {
                            ev = Some(json!({"ev":"park","t":t,"kind":a.last_kind,
                                "cids":a.last_cids.iter().map(|c| cid_out(*c)).collect::<Vec<_>>()}));
                        }
                        ("send", false) | ("force", false) => {
                            ev = Some(json!({"ev":"push","t":t,"kind":a.last_kind,
                                "cids":a.last_cids.iter().map(|c| cid_out(*c)).collect::<Vec<_>>()}));
                        }
                        ("exit", true) => {
                            *pk = pk.saturating_sub(1);
                            a.dropped = true;
                            ev = Some(json!({"ev":"exitdrop","t":t}));
                        }
                        ("exit", false) => {
                            *pk = pk.saturating_sub(1);
                            ev = Some(json!({"ev":"push","t":t,"kind":"exit","cids":[]}));
                        }
                        _ => {}
                    }
                }
                // (In free-running mode a push that saw "full" may still succeed: it counts as
                // "maybe refused".)
                // ring pushes / drains only feed the cut signature: in free-running mode every thread
                // works on its own traces, no trace can be cut, and the events are left out
                if let Some(ev) = ev {
                    if !s.free.load(Ordering::SeqCst) {
                        emit(ev);
                    }
                }
            }
        }
        Point::SenderDropped { chan } => {
            // the thread's destructor has flushed its overflow list: its exit is complete as far as
            // the scheduler is concerned (the producer half is released right after)
            if s.steer.load(Ordering::SeqCst) {
                if let Some(t) = thread_of_chan(*chan) {
                    post(Role::Thread(t), StopKind::Done);
                }
            }
        }
        Point::CycleBegin => {
            s.in_cycle.store(true, Ordering::SeqCst);
            emit(json!({"ev":"cycbegin"}));
        }
        Point::DrainRx { .. } => {
            park(Role::Collector, "drain");
        }
        Point::RecvEmpty { chan } => {
            // everything pushed before this moment has been consumed
            if s.free.load(Ordering::SeqCst) {
            } else if let Some(t) = thread_of_chan(*chan) {
                emit(json!({"ev":"drain","t":t}));
            } else {
                emit(json!({"ev":"drain","t":0,"chan":chan}));
            }
            park(Role::Collector, "check");
        }
        Point::RxRemoved { chan } => {
            emit(json!({"ev":"rxremoved","t":thread_of_chan(*chan).unwrap_or(0)}));
        }
        Point::BeforeProcess {
            starts,
            drops,
            commits,
            submits,
        } => {
            let inc = |v: &Vec<usize>| v.iter().map(|c| cid_out(*c)).collect::<Vec<_>>();
            emit(json!({"ev":"process","starts":inc(starts),"drops":inc(drops),"commits":inc(commits),
                "submits":submits.iter().map(inc).collect::<Vec<_>>()}));
        }
        Point::Batch { sets } => {
            // collector conformance (TraceColl.tla): what every submitted set of the batch consists of
            if !sets.is_empty() || !s.free.load(Ordering::SeqCst) {
                emit(json!({"ev":"batch","subs":sets.iter().map(|b| json!({
                    "tok": b.items.iter().map(|(c, tr, par)| json!({"cid":cid_out(*c),"tr":hex32(*tr),"par":hex16(*par)})).collect::<Vec<_>>(),
                    "q": b.raws.iter().map(|(id, par, k, np)| json!({"id":hex16(*id),"par":hex16(*par),"k":k,"np":np})).collect::<Vec<_>>(),
                })).collect::<Vec<_>>()}));
            }
        }
        Point::AfterProcess { active } => {
            emit(json!({"ev":"after","active":active.iter().map(|a| json!({"cid":cid_out(a.collect_id),
                "sets":a.buffered_sets,"dang":a.danglings})).collect::<Vec<_>>()}));
        }
        Point::CycleEnd => {
            emit(json!({"ev":"cycend"}));
            s.in_cycle.store(false, Ordering::SeqCst);
        }
    }
}

pub fn install_hooks() {
    verif::set_hook(Some(Arc::new(on_point)));
}

pub fn record_json(r: &SpanRecord) -> Value {
    let w0 = shared().w0_ns;
    let off = |ns: u64| ((ns as i128 - w0 as i128) / 1000) as i64;
    json!({
        "name": r.name,
        "trace": hex32(r.trace_id.0),
        "id": hex16(r.span_id.0),
        "parent": hex16(r.parent_id.0),
        "b": off(r.begin_time_unix_ns),
        "d": (r.duration_ns / 1000) as i64,
        "props": r.properties.iter().map(|(k, v)| json!([k, v])).collect::<Vec<_>>(),
        "events": r.events.iter().map(|e| json!({
            "name": e.name,
            "ts": off(e.timestamp_unix_ns),
            "props": e.properties.iter().map(|(k, v)| json!([k, v])).collect::<Vec<_>>(),
        })).collect::<Vec<_>>(),
    })
}

pub struct CapturingReporter;

impl Reporter for CapturingReporter {
    fn report(&mut self, spans: Vec<SpanRecord>) {
        // an empty batch carries no information and the background collector produces them all the time
        if spans.is_empty() && shared().free.load(Ordering::SeqCst) {
            return;
        }
        emit(json!({"ev":"report","w":wall_us(),"recs":spans.iter().map(record_json).collect::<Vec<_>>()}));
        if !spans.is_empty() && shared().report_gate.load(Ordering::SeqCst) {
            // held here by the `overlap` scenario: the cycle has drained the queues and does not end yet
            shared().in_report.store(true, Ordering::SeqCst);
            let deadline = Instant::now() + Duration::from_secs(8);
            while shared().report_gate.load(Ordering::SeqCst) && Instant::now() < deadline {
                std::thread::sleep(Duration::from_micros(200));
            }
            shared().in_report.store(false, Ordering::SeqCst);
        }
        if !spans.is_empty() && shared().free.load(Ordering::SeqCst) && shared().reentrant.load(Ordering::SeqCst) {
            // free-running rounds: a reporter that takes a little time, so that a flush() called right after
            // the work may find a cycle in progress that has already drained the queues
            std::thread::sleep(std::time::Duration::from_micros(300));
        }
        if !spans.is_empty() {
            shared().nrecs.fetch_add(spans.len(), Ordering::SeqCst);
            shared().last_rec_us.store(mono_us() as u64, Ordering::SeqCst);
        }
        // An instrumented reporter (an HTTP client with #[trace] functions, a logger that attaches
        // events): in free-running mode every fifth non-empty batch of the programs' own records makes
        // the reporter trace itself, inside report(), on the collector's thread.  Those calls must
        // return like any others (C07); what they record is not constrained (`tls` marks the events).
        if shared().free.load(Ordering::SeqCst) && shared().reentrant.load(Ordering::SeqCst) && spans.iter().any(|r| !r.name.starts_with("rr")) {
            let k = shared().nrep.fetch_add(1, Ordering::SeqCst);
            if k % 5 == 4 {
                let (h, l, e) = (format!("rr{k}"), format!("rrl{k}"), format!("rre{k}"));
                emit(json!({"ev":"call","t":0,"op":"root","tls":true,"h":h,"l":l}));
                let res = std::panic::catch_unwind(|| {
                    let root = fastrace::Span::root(h.clone(), fastrace::prelude::SpanContext::new(
                        fastrace::collector::TraceId(0xeeee_0000 + k as u128), fastrace::collector::SpanId(5)));
                    let _g = root.set_local_parent();
                    let _s = fastrace::prelude::LocalSpan::enter_with_local_parent(l.clone());
                    fastrace::prelude::LocalSpan::add_event(fastrace::prelude::Event::new(e.clone()));
                    let _ = fastrace::prelude::SpanContext::current_local_parent();
                });
                let mut ret = json!({"ev":"ret","t":0,"op":"root","tls":true,"h":h});
                if res.is_err() {
                    ret["panic"] = json!("panic inside report()");
                }
                emit(ret);
            }
        }
    }
}

pub fn wait_stop(rx: &mpsc::Receiver<Stop>, timeout: Duration) -> Option<Stop> {
    rx.recv_timeout(timeout).ok()
}
