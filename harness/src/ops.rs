//! Execution of one API operation (a step of a behaviour) against the real fastrace, with the
//! call / return events of Appendix B of DESIGN.md.

use std::cell::Cell;
use std::collections::HashMap;
use std::panic::{catch_unwind, AssertUnwindSafe};
use std::sync::{Arc, Mutex};

use fastrace::local::{LocalCollector, LocalParentGuard, LocalSpan, LocalSpans};
use fastrace::prelude::*;
use serde_json::{json, Map, Value};

use crate::rt::{self, emit, hex16, hex32, mono_us, shared, wall_us, Acc};

pub enum Held {
    Guard(Option<LocalParentGuard>),
    Coll(LocalCollector),
    Local(LocalSpan),
}

/// State shared by the actors of one run.
pub struct RunCtx {
    pub seed: u64,
    pub spans: Mutex<HashMap<i64, Arc<Span>>>,
    pub lsets: Mutex<HashMap<i64, LocalSpans>>,
    pub traces: Mutex<HashMap<i64, u128>>,
    pub ctxs: Mutex<HashMap<i64, Option<SpanContext>>>,
    pub futs: Mutex<HashMap<i64, crate::adapters::Adapter>>,
}

impl RunCtx {
    pub fn new(seed: u64) -> Self {
        RunCtx {
            seed,
            spans: Mutex::new(HashMap::new()),
            lsets: Mutex::new(HashMap::new()),
            traces: Mutex::new(HashMap::new()),
            ctxs: Mutex::new(HashMap::new()),
            futs: Mutex::new(HashMap::new()),
        }
    }

    fn mix(&self, a: u64, b: u64) -> u64 {
        // splitmix64 over (seed, a, b)
        let mut z = self
            .seed
            .wrapping_add(a.wrapping_mul(0x9E3779B97F4A7C15))
            .wrapping_add(b.wrapping_mul(0xBF58476D1CE4E5B9));
        z = (z ^ (z >> 30)).wrapping_mul(0xBF58476D1CE4E5B9);
        z = (z ^ (z >> 27)).wrapping_mul(0x94D049BB133111EB);
        z ^ (z >> 31)
    }

    pub fn trace(&self, tr: i64) -> u128 {
        *self.traces.lock().unwrap().entry(tr).or_insert_with(|| {
            let hi = self.mix(1, tr as u64) as u128;
            let lo = self.mix(2, tr as u64) as u128;
            // exercise the top bit now and then
            let v = (hi << 64) | lo;
            if tr % 3 == 0 {
                v | (1u128 << 127)
            } else {
                v
            }
        })
    }

    /// Which of the equivalent spellings of an API call this step uses (singular / plural property
    /// forms, deprecated Event::add_to_* forms): the abstract operation is the same.
    pub fn variant(&self, key: i64, n: u64) -> u64 {
        self.mix(5, key as u64) % n
    }

    pub fn rpar(&self, h: i64) -> u64 {
        let v = self.mix(3, h as u64);
        match v % 7 {
            0 => 0,                       // SpanContext::random() style: no remote parent
            1 => v | (1 << 63),
            _ => v | 1,
        }
    }

    /// The value string of a tag: arbitrary UTF-8 (the "inputs" quantifier of C06).
    pub fn val(&self, tag: i64) -> String {
        let r = self.mix(4, tag as u64);
        match r % 6 {
            0 => String::new(),
            1 => format!("v{tag}"),
            2 => format!("värde-{tag}-\u{1F600}\u{00e9}\u{4e2d}"),
            3 => format!("{}", "x".repeat((r % 300) as usize)),
            4 => format!("\"quoted\\ {tag}\n\t\u{0}\u{7f}"),
            _ => format!("{:x}", r),
        }
    }
}

pub fn sname(n: i64) -> String {
    format!("s{n}")
}
fn ename(n: i64) -> String {
    format!("e{n}")
}
fn kname(n: i64) -> String {
    format!("k{n}")
}

fn ctx_json(c: Option<SpanContext>) -> Value {
    match c {
        Some(c) => json!({"some":true,"tr":hex32(c.trace_id.0),"id":hex16(c.span_id.0),"smp":c.sampled}),
        None => json!({"some":false}),
    }
}

fn quiet_local_ctx() -> Option<SpanContext> {
    catch_unwind(SpanContext::current_local_parent).ok().flatten()
}

pub struct Actor {
    pub t: usize,
}

thread_local! {
    /// what the caller on this thread holds (guards, collectors, local spans), innermost last
    pub static HELD: std::cell::RefCell<Vec<(i64, Held)>> = const { std::cell::RefCell::new(Vec::new()) };
}

pub fn held_push(n: i64, h: Held) {
    let _ = HELD.try_with(|v| v.borrow_mut().push((n, h)));
}
pub fn held_pop() -> Option<(i64, Held)> {
    HELD.try_with(|v| v.borrow_mut().pop()).ok().flatten()
}
/// Takes the entry with that name out of the stack (it need not be on top: a scope may be closed
/// while local spans recorded in it are still open).
pub fn held_remove(n: i64) -> Option<Held> {
    HELD.try_with(|v| {
        let mut v = v.borrow_mut();
        let i = v.iter().rposition(|x| x.0 == n)?;
        Some(v.remove(i).1)
    })
    .ok()
    .flatten()
}
/// Takes the entry with that name (the innermost one when n is 0) out for a call that consumes it;
/// `held_put` puts the result back where it was: the entry need not be the innermost one.
pub fn held_take(n: i64) -> Option<(usize, i64, Held)> {
    HELD.try_with(|v| {
        let mut v = v.borrow_mut();
        let i = if n == 0 { v.len().checked_sub(1)? } else { v.iter().rposition(|x| x.0 == n)? };
        let (name, h) = v.remove(i);
        Some((i, name, h))
    })
    .ok()
    .flatten()
}
pub fn held_put(pos: usize, n: i64, h: Held) {
    let _ = HELD.try_with(|v| {
        let mut v = v.borrow_mut();
        let pos = pos.min(v.len());
        v.insert(pos, (n, h));
    });
}
pub fn held_top_name() -> Option<i64> {
    HELD.try_with(|v| v.borrow().last().map(|x| x.0)).ok().flatten()
}

/// Tracing calls issued from a thread-local destructor (C07: "calls made while the thread's local
/// storage is being torn down"). `early`: the object was created before the thread first touched
/// fastrace, so it is destroyed after fastrace's own thread-locals and every call must degrade to a
/// no-op; the events carry `tls` and the trace validator only checks that they return.
pub struct DtorBox {
    pub t: usize,
    pub rc: Arc<RunCtx>,
    pub ops: Vec<Value>,
    pub early: bool,
}

impl Drop for DtorBox {
    fn drop(&mut self) {
        let mut actor = Actor { t: self.t };
        for op in &self.ops {
            let mut st = op.clone();
            st["t"] = json!(self.t);
            st["ev"] = json!("call");
            // whichever of fastrace's thread-locals are still there (the order of destruction is
            // unspecified): only "returns normally" is checked for these calls
            st["tls"] = json!(true);
            exec(&mut actor, &self.rc, &st);
        }
    }
}

thread_local! {
    static PREBUILT: std::cell::RefCell<Option<(Event, u32)>> = const { std::cell::RefCell::new(None) };
}

thread_local! {
    pub static DTOR: std::cell::RefCell<Option<DtorBox>> = const { std::cell::RefCell::new(None) };
}

fn kvs_of(rc: &RunCtx, v: &Value) -> Vec<(String, String)> {
    v.as_array()
        .map(|a| {
            a.iter()
                .map(|p| {
                    let n = p[0].as_i64().unwrap_or(0);
                    (kname(n), rc.val(n))
                })
                .collect()
        })
        .unwrap_or_default()
}

fn kvs_json(k: &[(String, String)]) -> Value {
    Value::Array(k.iter().map(|(a, b)| json!([a, b])).collect())
}

/// Runs one step. Emits the call and (unless the step is `exit`) the return event.
pub fn exec(actor: &mut Actor, rc: &RunCtx, step: &Value) {
    let t = actor.t;
    let op = step["op"].as_str().unwrap_or("").to_string();
    let geti = |k: &str| step[k].as_i64().unwrap_or(0);
    // ---- call event (names as strings, tags as the strings they stand for)
    let mut call = Map::new();
    call.insert("ev".into(), json!("call"));
    call.insert("t".into(), json!(t));
    call.insert("op".into(), json!(op));
    for k in ["h", "g", "c", "l", "ls", "v", "held"] {
        if !step[k].is_null() {
            call.insert(k.into(), json!(sname(geti(k))));
        }
    }
    if op == "torec" && geti("src") != 0 {
        call.insert("src".into(), json!(sname(geti("src"))));
    }
    if let Some(ps) = step["ps"].as_array() {
        call.insert(
            "ps".into(),
            Value::Array(ps.iter().map(|p| json!(sname(p.as_i64().unwrap_or(0)))).collect()),
        );
        call.insert("multi".into(), json!(step["multi"].as_bool().unwrap_or(ps.len() > 1)));
    }
    let kvs = kvs_of(rc, &step["kvs"]);
    if !step["kvs"].is_null() {
        call.insert("kvs".into(), kvs_json(&kvs));
    }
    let evt = if step["evt"].is_object() {
        let n = step["evt"]["name"].as_i64().unwrap_or(0);
        let p = kvs_of(rc, &step["evt"]["props"]);
        call.insert("evt".into(), json!({"name": ename(n), "props": kvs_json(&p)}));
        Some((ename(n), p))
    } else {
        None
    };
    if op == "rootctx" {
        let src = geti("src");
        if src != 0 {
            call.insert("src".into(), json!(sname(src)));
        }
        call.insert("w3c".into(), json!(step["w3c"].as_bool().unwrap_or(false)));
    }
    for k in ["f"] {
        if !step[k].is_null() {
            call.insert(k.into(), json!(sname(geti(k))));
        }
    }
    for k in ["kind", "inner", "fin"] {
        if !step[k].is_null() {
            call.insert(k.into(), step[k].clone());
        }
    }
    if !step["re"].is_null() {
        call.insert("re".into(), step["re"].clone());
    }
    if !step["tls"].is_null() {
        call.insert("tls".into(), step["tls"].clone());
    }
    if !step["unw"].is_null() {
        call.insert("unw".into(), step["unw"].clone());
    }
    if op == "root" {
        call.insert("tr".into(), json!(hex32(rc.trace(geti("tr")))));
        call.insert("smp".into(), json!(step["smp"].as_bool().unwrap_or(true)));
        call.insert("rpar".into(), json!(hex16(rc.rpar(geti("h")))));
    }
    shared().acc.lock().unwrap().insert(t, Acc::default());
    // An Event is an ordinary value: it may be built long before it is attached.  The time it carries is
    // the time of the add_event call (C18), so the plural spelling builds it here, before the call's
    // clock readings (and before the pause that makes a wrong time visible).
    if (op == "levent" || op == "sevent") && rc.variant(step["evt"]["name"].as_i64().unwrap_or(0), 3) == 2 {
        if let Some((n, p)) = &evt {
            let cc = Cell::new(0u32);
            let p = p.clone();
            let built = catch_unwind(AssertUnwindSafe(|| {
                Event::new(n.clone()).with_properties(|| {
                    cc.set(cc.get() + 1);
                    let _ = SpanContext::current_local_parent();
                    p
                })
            }));
            if let Ok(ev) = built {
                PREBUILT.with(|b| *b.borrow_mut() = Some((ev, cc.get())));
                // in the timed instances every other pre-built event waits 5 ms for its add_event call: longer
                // than the tolerance on wall-clock readings
                if shared().op_sleep_us.load(std::sync::atomic::Ordering::Relaxed) > 0 && rc.variant(step["evt"]["name"].as_i64().unwrap_or(0) + 7, 2) == 0 {
                    std::thread::sleep(std::time::Duration::from_millis(5));
                }
            }
        }
    }
    let pause = shared().op_sleep_us.load(std::sync::atomic::Ordering::Relaxed);
    if pause > 0 {
        // make intervals long enough that a wrong time cannot hide in the tolerances (C18)
        std::thread::sleep(std::time::Duration::from_micros(pause));
    }
    call.insert("m".into(), json!(mono_us()));
    call.insert("w".into(), json!(wall_us()));
    emit(Value::Object(call.clone()));

    // ---- the operation itself
    let mut out = Map::new();
    let res = catch_unwind(AssertUnwindSafe(|| do_op(actor, rc, &op, step, &kvs, &evt, &mut out)));
    // what is waiting in this thread's overflow list now (read from the sender itself)
    if let Some(n) = fastrace::verif::parked_commands() {
        shared().parked.lock().unwrap().insert(t, n);
    }
    let m1 = mono_us();
    let w1 = wall_us();

    if op == "exit" {
        return; // the return event is written by the scheduler once the thread is gone
    }
    // ---- return event: the call's arguments, the results, what the hooks saw
    let mut ret = call;
    let (m0, w0) = (ret["m"].clone(), ret["w"].clone());
    ret.insert("m0".into(), m0);
    ret.insert("w0".into(), w0);
    ret.insert("ev".into(), json!("ret"));
    for (k, v) in out {
        ret.insert(k, v);
    }
    if let Err(p) = res {
        let msg = p
            .downcast_ref::<String>()
            .cloned()
            .or_else(|| p.downcast_ref::<&str>().map(|s| s.to_string()))
            .unwrap_or_else(|| "panic".into());
        ret.insert("panic".into(), json!(msg));
    }
    finish_ret(t, &mut ret);
    ret.insert("m".into(), json!(m1));
    ret.insert("w".into(), json!(w1));
    emit(Value::Object(ret));
}

/// Adds what the hooks observed during the call of thread t.
pub fn finish_ret(t: usize, ret: &mut Map<String, Value>) {
    let acc = shared().acc.lock().unwrap().get(&t).cloned().unwrap_or_default();
    let parked = shared().parked.lock().unwrap().get(&t).copied().unwrap_or(0);
    ret.insert("refused".into(), json!(acc.refused));
    ret.insert("dropped".into(), json!(acc.dropped));
    ret.insert("parked".into(), json!(parked));
    ret.insert("pushes".into(), json!(acc.pushes));
    if let Some(c) = acc.start_cid {
        ret.insert("cid".into(), json!(rt::cid_out(c)));
    }
}

fn get_span(rc: &RunCtx, h: i64) -> Option<Arc<Span>> {
    rc.spans.lock().unwrap().get(&h).cloned()
}

fn take_span(rc: &RunCtx, h: i64) -> Option<Span> {
    let arc = rc.spans.lock().unwrap().remove(&h)?;
    let mut arc = arc;
    for _ in 0..2000 {
        match Arc::try_unwrap(arc) {
            Ok(s) => return Some(s),
            Err(a) => {
                arc = a;
                std::thread::sleep(std::time::Duration::from_micros(100));
            }
        }
    }
    // somebody else is stuck inside a call on this span: give up (the span is leaked)
    std::mem::forget(arc);
    None
}

fn do_op(
    actor: &mut Actor,
    rc: &RunCtx,
    op: &str,
    step: &Value,
    kvs: &[(String, String)],
    evt: &Option<(String, Vec<(String, String)>)>,
    out: &mut Map<String, Value>,
) {
    let geti = |k: &str| step[k].as_i64().unwrap_or(0);
    let own = |k: &[(String, String)]| k.to_vec();
    match op {
        "root" => {
            let h = geti("h");
            let ctx = SpanContext::new(TraceId(rc.trace(geti("tr"))), SpanId(rc.rpar(h)))
                .sampled(step["smp"].as_bool().unwrap_or(true));
            let span = Span::root(sname(h), ctx);
            if let Some(c) = SpanContext::from_span(&span) {
                out.insert("id".into(), json!(hex16(c.span_id.0)));
            }
            rc.spans.lock().unwrap().insert(h, Arc::new(span));
        }
        "rootctx" => {
            let h = geti("h");
            let src = geti("src");
            out.insert("ctx".into(), json!({"some": false}));
            let ctx = if src == 0 {
                SpanContext::current_local_parent()
            } else {
                get_span(rc, src).and_then(|s| SpanContext::from_span(&s))
            };
            out.insert("ctx".into(), ctx_json(ctx));
            let span = match ctx {
                Some(c) => {
                    let c = if step["w3c"].as_bool().unwrap_or(false) {
                        // through the wire format; a failed decode shows up as a missing trace
                        match SpanContext::decode_w3c_traceparent(&c.encode_w3c_traceparent()) {
                            Some(d) => d,
                            None => {
                                out.insert("decode_failed".into(), json!(true));
                                c
                            }
                        }
                    } else {
                        c
                    };
                    Span::root(sname(h), c)
                }
                None => Span::noop(),
            };
            if let Some(c) = SpanContext::from_span(&span) {
                out.insert("id".into(), json!(hex16(c.span_id.0)));
            }
            rc.spans.lock().unwrap().insert(h, Arc::new(span));
        }
        "child" => {
            let h = geti("h");
            let ps: Vec<i64> = step["ps"].as_array().map(|a| a.iter().filter_map(|x| x.as_i64()).collect()).unwrap_or_default();
            let multi = step["multi"].as_bool().unwrap_or(ps.len() > 1);
            let noop = Arc::new(Span::noop());
            let arcs: Vec<Arc<Span>> = ps.iter().map(|p| get_span(rc, *p).unwrap_or_else(|| noop.clone())).collect();
            let span = if multi {
                Span::enter_with_parents(sname(h), arcs.iter().map(|a| &**a))
            } else {
                Span::enter_with_parent(sname(h), &arcs[0])
            };
            if let Some(c) = SpanContext::from_span(&span) {
                out.insert("id".into(), json!(hex16(c.span_id.0)));
            }
            rc.spans.lock().unwrap().insert(h, Arc::new(span));
        }
        "childl" => {
            let h = geti("h");
            let span = Span::enter_with_local_parent(sname(h));
            if let Some(c) = SpanContext::from_span(&span) {
                out.insert("id".into(), json!(hex16(c.span_id.0)));
            }
            rc.spans.lock().unwrap().insert(h, Arc::new(span));
        }
        "mknoop" => {
            rc.spans.lock().unwrap().insert(geti("h"), Arc::new(Span::noop()));
        }
        "setlp" => {
            let g = get_span(rc, geti("h")).map(|s| s.set_local_parent());
            held_push(geti("g"), Held::Guard(g));
        }
        "dropg" | "lcdrop" | "lexit" => {
            let want = geti(match op {
                "dropg" => "g",
                "lcdrop" => "c",
                _ => "l",
            });
            match held_remove(want) {
                Some(h) if step["unw"].as_bool().unwrap_or(false) => {
                    // the guard / span / collector is released by a panic unwinding through its owner (and the
                    // panic is caught further out, as a thread pool or an async runtime does): the local context
                    // must be restored all the same (C10, C15)
                    struct InUnwind(Option<Held>);
                    impl Drop for InUnwind {
                        fn drop(&mut self) {
                            drop(self.0.take());
                        }
                    }
                    let _ = catch_unwind(AssertUnwindSafe(move || {
                        let _owner = InUnwind(Some(h));
                        std::panic::resume_unwind(Box::new("unwinding through a scope"));
                    }));
                    out.insert("unwound".into(), json!(true));
                }
                Some(h) => drop(h),
                None => {
                    out.insert("harness".into(), json!("ill-nested"));
                }
            }
        }
        "lcstart" => {
            held_push(geti("c"), Held::Coll(LocalCollector::start()));
        }
        "lccollect" => {
            match held_remove(geti("c")) {
                Some(Held::Coll(c)) => {
                    rc.lsets.lock().unwrap().insert(geti("ls"), c.collect());
                }
                _ => {
                    out.insert("harness".into(), json!("ill-nested"));
                }
            }
        }
        "lenter" => {
            let before = quiet_local_ctx().map(|c| c.span_id);
            let span = LocalSpan::enter_with_local_parent(sname(geti("l")));
            let after = quiet_local_ctx().map(|c| c.span_id);
            if after.is_some() && after != before {
                out.insert("id".into(), json!(hex16(after.unwrap().0)));
            }
            held_push(geti("l"), Held::Local(span));
        }
        "levent" => {
            let cc = Cell::new(0u32);
            if let Some((n, p)) = evt {
                let p = own(p);
                let key = step["evt"]["name"].as_i64().unwrap_or(0);
                let tick = || cc.set(cc.get() + 1);
                match rc.variant(key, 3) {
                    0 if p.len() == 1 => {
                        let kv = p[0].clone();
                        LocalSpan::add_event(Event::new(n.clone()).with_property(|| {
                            tick();
                            kv
                        }));
                    }
                    1 => {
                        #[allow(deprecated)]
                        Event::add_to_local_parent(n.clone(), || {
                            tick();
                            // (a panic here is the call's: the closure must be able to use fastrace)
                            let _ = SpanContext::current_local_parent();
                            p.into_iter().map(|(k, v)| (k.into(), v.into()))
                        });
                    }
                    _ => match PREBUILT.with(|b| b.borrow_mut().take()) {
                        Some((ev, n)) => {
                            cc.set(n);
                            LocalSpan::add_event(ev);
                        }
                        None => LocalSpan::add_event(Event::new(n.clone()).with_properties(|| {
                            tick();
                            p
                        })),
                    },
                }
            }
            out.insert("cc".into(), json!(cc.get()));
        }
        "lprops" => {
            let cc = Cell::new(0u32);
            let k = own(kvs);
            let re = step["re"].as_bool().unwrap_or(false);
            let single = !re && k.len() == 1 && rc.variant(step["kvs"][0][0].as_i64().unwrap_or(0), 2) == 1;
            let body = || {
                cc.set(cc.get() + 1);
                if re {
                    // what a closure that logs through a fastrace-aware logger, or calls a
                    // #[trace] function, does: it calls back into fastrace
                    let _ = SpanContext::current_local_parent();
                }
            };
            if single {
                let kv = k[0].clone();
                LocalSpan::add_property(|| {
                    body();
                    kv
                });
            } else {
                LocalSpan::add_properties(|| {
                    body();
                    // ... and so may the iterator the closure returns
                    k.into_iter().map(move |kv| {
                        if re {
                            let _ = SpanContext::current_local_parent();
                        }
                        kv
                    })
                });
            }
            out.insert("cc".into(), json!(cc.get()));
        }
        "lwith" => match held_take(geti("l")) {
            Some((pos, n, Held::Local(span))) => {
                let cc = Cell::new(0u32);
                let k = own(kvs);
                let re = step["re"].as_bool().unwrap_or(false);
                let single = !re && k.len() == 1 && rc.variant(step["kvs"][0][0].as_i64().unwrap_or(0), 2) == 1;
                let body = || {
                    cc.set(cc.get() + 1);
                    if re {
                        let _ = SpanContext::current_local_parent();
                    }
                };
                let span = if single {
                    let kv = k[0].clone();
                    span.with_property(|| {
                        body();
                        kv
                    })
                } else {
                    span.with_properties(|| {
                        body();
                        k.into_iter().map(move |kv| {
                            if re {
                                let _ = SpanContext::current_local_parent();
                            }
                            kv
                        })
                    })
                };
                out.insert("cc".into(), json!(cc.get()));
                held_put(pos, n, Held::Local(span));
            }
            Some((pos, n, other)) => {
                held_put(pos, n, other);
                out.insert("harness".into(), json!("ill-nested"));
            }
            None => {
                out.insert("harness".into(), json!("ill-nested"));
            }
        },
        "sevent" => {
            let cc = Cell::new(0u32);
            if let (Some(s), Some((n, p))) = (get_span(rc, geti("h")), evt) {
                let p = own(p);
                let key = step["evt"]["name"].as_i64().unwrap_or(0);
                let tick = || cc.set(cc.get() + 1);
                match rc.variant(key, 3) {
                    0 if p.len() == 1 => {
                        let kv = p[0].clone();
                        s.add_event(Event::new(n.clone()).with_property(|| {
                            tick();
                            kv
                        }));
                    }
                    1 => {
                        #[allow(deprecated)]
                        Event::add_to_parent(n.clone(), &s, || {
                            tick();
                            // (a panic here is the call's: the closure must be able to use fastrace)
                            let _ = SpanContext::current_local_parent();
                            p.into_iter().map(|(k, v)| (k.into(), v.into()))
                        });
                    }
                    _ => match PREBUILT.with(|b| b.borrow_mut().take()) {
                        Some((ev, n)) => {
                            cc.set(n);
                            s.add_event(ev);
                        }
                        None => s.add_event(Event::new(n.clone()).with_properties(|| {
                            tick();
                            p
                        })),
                    },
                }
                out.insert("cc".into(), json!(cc.get()));
            }
        }
        "sprops" => {
            let cc = Cell::new(0u32);
            if let Some(s) = get_span(rc, geti("h")) {
                let k = own(kvs);
                if k.len() == 1 && rc.variant(step["kvs"][0][0].as_i64().unwrap_or(0), 2) == 1 {
                    let kv = k[0].clone();
                    s.add_property(|| {
                        cc.set(cc.get() + 1);
                        kv
                    });
                } else {
                    s.add_properties(|| {
                        cc.set(cc.get() + 1);
                        k
                    });
                }
            }
            out.insert("cc".into(), json!(cc.get()));
        }
        "swith" => {
            let cc = Cell::new(0u32);
            let h = geti("h");
            if let Some(s) = take_span(rc, h) {
                let k = own(kvs);
                let s = if k.len() == 1 && rc.variant(step["kvs"][0][0].as_i64().unwrap_or(0), 2) == 1 {
                    let kv = k[0].clone();
                    s.with_property(|| {
                        cc.set(cc.get() + 1);
                        kv
                    })
                } else {
                    s.with_properties(|| {
                        cc.set(cc.get() + 1);
                        k
                    })
                };
                rc.spans.lock().unwrap().insert(h, Arc::new(s));
            }
            out.insert("cc".into(), json!(cc.get()));
        }
        "pushc" => {
            let ls = rc.lsets.lock().unwrap().get(&geti("ls")).cloned();
            if let (Some(s), Some(ls)) = (get_span(rc, geti("h")), ls) {
                s.push_child_spans(ls);
            }
        }
        "torec" => {
            // LocalSpans::to_span_records under the context of span src, or under a made-up one
            out.insert("ctx".into(), json!({"some": false}));
            out.insert("recs".into(), json!([]));
            let src = geti("src");
            let ctx = if src == 0 {
                Some(SpanContext::new(fastrace::collector::TraceId(rc.rpar(geti("v")) as u128 | 1 << 100), fastrace::collector::SpanId(rc.rpar(geti("v")) | 1 << 60)))
            } else {
                get_span(rc, src).and_then(|s| SpanContext::from_span(&s))
            };
            out.insert("ctx".into(), ctx_json(ctx));
            let ls = rc.lsets.lock().unwrap().get(&geti("ls")).cloned();
            if let (Some(c), Some(ls)) = (ctx, ls) {
                let recs = ls.to_span_records(c);
                out.insert("recs".into(), Value::Array(recs.iter().map(crate::rt::record_json).collect()));
            }
        }
        "cancel" => {
            if let Some(s) = get_span(rc, geti("h")) {
                s.cancel();
            }
        }
        "drop" => {
            if let Some(s) = take_span(rc, geti("h")) {
                drop(s);
            }
        }
        "ctxrandom" => {
            // SpanContext::random() / TraceId::random(): public calls as well
            let c = SpanContext::random();
            out.insert("some".into(), json!(c.trace_id.0 != 0 || true));
        }
        "ctxl" => {
            out.insert("ctx".into(), json!({"some": false}));
            let c = SpanContext::current_local_parent();
            out.insert("ctx".into(), ctx_json(c));
        }
        "ctxs" => {
            let c = get_span(rc, geti("h")).and_then(|s| SpanContext::from_span(&s));
            out.insert("ctx".into(), ctx_json(c));
        }
        "elapsed" => {
            let e = get_span(rc, geti("h")).and_then(|s| s.elapsed());
            out.insert("some".into(), json!(e.is_some()));
            out.insert("us".into(), json!(e.map(|d| d.as_micros() as u64).unwrap_or(0)));
        }
        "flush" => {
            fastrace::flush();
        }
        "fnew" => {
            let kind = step["kind"].as_str().unwrap_or("fut");
            let span = if kind == "eop" { None } else { take_span(rc, geti("h")) };
            let mut ad = crate::adapters::Adapter::new(kind, span, actor.t);
            if !step["gnext"].is_null() {
                ad.prepare(geti("gnext"));
            }
            rc.futs.lock().unwrap().insert(geti("f"), ad);
        }
        "fpoll" => {
            let ad = rc.futs.lock().unwrap().remove(&geti("f"));
            if let Some(mut ad) = ad {
                let ready = ad.poll(
                    rc,
                    actor.t,
                    geti("f"),
                    geti("g"),
                    step["inner"].as_str().unwrap_or("none"),
                    step["fin"].as_bool().unwrap_or(false),
                    step["tail"].as_bool().unwrap_or(false),
                );
                out.insert("ready".into(), json!(ready));
                if !step["gnext"].is_null() {
                    ad.prepare(geti("gnext"));
                }
                rc.futs.lock().unwrap().insert(geti("f"), ad);
            }
        }
        "fdrop" => {
            let ad = rc.futs.lock().unwrap().remove(&geti("f"));
            drop(ad);
        }
        "exit" => {}
        _ => {
            out.insert("harness".into(), json!(format!("unknown op {op}")));
        }
    }
    let _ = rt::mono_us;
}
