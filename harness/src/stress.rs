//! Free-running executions (implementation -> specification): the programs TLC generated for one
//! thread are run on several real threads at once against the *real* background collector (small
//! report interval), nothing is steered; the hooks only log. The recorded events, ordered by one
//! global ticket counter, go to the same trace validator as the steered runs.
//!
//! Each thread works on its own traces (no span crosses threads), so the listed cross-thread cut
//! findings cannot occur here and every rejection is a violation.

use std::io::{BufRead, Write};
use std::sync::atomic::Ordering;
use std::sync::Arc;
use std::time::Duration;

use fastrace::verif;
use serde_json::{json, Value};

use crate::ops::{exec, held_pop, Actor, RunCtx};
use crate::rt::{self, emit, shared};

pub struct Opts {
    pub cancelable: bool,
    pub threads: usize,
    pub interval_us: u64,
    pub ring: usize,
    pub queue: usize,
    pub stack: usize,
    pub seed: u64,
    pub rounds: usize,
    pub idle_every: usize,
}

/// Renames everything thread 1 did in a one-thread behaviour so that it is thread `t`'s
/// (names are 100 * thread + k).
fn remap(step: &Value, t: usize) -> Value {
    let shift = (t as i64 - 1) * 100;
    let mut s = step.clone();
    if let Some(o) = s.as_object_mut() {
        if o.contains_key("t") {
            o.insert("t".into(), json!(t));
        }
        for k in ["h", "g", "c", "l", "ls", "f", "src", "v", "held"] {
            if let Some(v) = o.get(k).and_then(|v| v.as_i64()) {
                if v != 0 {
                    o.insert(k.into(), json!(v + shift));
                }
            }
        }
        if let Some(ps) = o.get("ps").and_then(|v| v.as_array()).cloned() {
            o.insert("ps".into(), Value::Array(ps.iter().map(|p| json!(p.as_i64().unwrap_or(0) + shift)).collect()));
        }
        if let Some(tr) = o.get("tr").and_then(|v| v.as_i64()) {
            // every thread has its own traces
            o.insert("tr".into(), json!(tr + 10 * t as i64));
        }
        if let Some(kvs) = o.get("kvs").and_then(|v| v.as_array()).cloned() {
            o.insert("kvs".into(), Value::Array(kvs.iter().map(|p| json!([p[0].as_i64().unwrap_or(0) + shift, p[1].as_i64().unwrap_or(0) + shift])).collect()));
        }
        if let Some(evt) = o.get("evt").cloned() {
            let n = evt["name"].as_i64().unwrap_or(0) + shift;
            let props: Vec<Value> = evt["props"].as_array().map(|a| a.iter().map(|p| json!([p[0].as_i64().unwrap_or(0) + shift, p[1].as_i64().unwrap_or(0) + shift])).collect()).unwrap_or_default();
            o.insert("evt".into(), json!({"name": n, "props": props}));
        }
    }
    s
}

pub fn run(input: &str, output: &str, opts: Opts) -> std::io::Result<i32> {
    let s = shared();
    s.free.store(true, Ordering::SeqCst);
    s.reentrant.store(true, Ordering::SeqCst);
    s.steer.store(false, Ordering::SeqCst);
    verif::set_manual(false);
    verif::set_ring_capacity(opts.ring);
    verif::set_queue_capacity(opts.queue);
    verif::set_stack_capacity(opts.stack);
    rt::install_hooks();
    std::panic::set_hook(Box::new(|_| {}));
    fastrace::set_reporter(
        rt::CapturingReporter,
        fastrace::collector::Config::default()
            .cancelable(opts.cancelable)
            .report_interval(Duration::from_micros(opts.interval_us)),
    );

    // programs: the call steps of one-thread behaviours
    let mut programs: Vec<Vec<Value>> = Vec::new();
    for line in std::io::BufReader::new(std::fs::File::open(input)?).lines() {
        let line = line?;
        let Ok(beh) = serde_json::from_str::<Value>(&line) else { continue };
        let steps = if beh.is_object() { beh["steps"].as_array().cloned().unwrap_or_default() } else { beh.as_array().cloned().unwrap_or_default() };
        let calls: Vec<Value> = steps.into_iter().filter(|x| x["ev"] == "call" && x["op"] != "flush").collect();
        if !calls.is_empty() {
            programs.push(calls);
        }
    }
    if programs.is_empty() {
        return Ok(0);
    }
    let eff = |v: usize, d: usize| if v == 0 { d } else { v };
    let mut out = std::io::BufWriter::new(std::fs::File::create(output)?);
    let mut x = opts.seed | 1;
    let mut rnd = move |n: usize| -> usize {
        x ^= x << 13;
        x ^= x >> 7;
        x ^= x << 17;
        (x % n.max(1) as u64) as usize
    };
    for round in 0..opts.rounds {
        // quiesce, then start the round's log
        std::thread::sleep(Duration::from_micros(opts.interval_us * 3 + 500));
        if !flush_twice() {
            return hung(&mut out, round, "flush()");
        }
        rt::take_log();
        s.chan_thread.lock().unwrap().clear();
        s.parked.lock().unwrap().clear();
        s.acc.lock().unwrap().clear();
        let foreign: Vec<usize> = verif::collector_stats().active.iter().map(|a| rt::cid_out(a.collect_id)).collect();
        emit(json!({"ev":"reset","run":round,"cfg":{"cancelable":opts.cancelable,"enabled":true,"ready":true,
            "queue":eff(opts.queue, 10240),"stack":eff(opts.stack, 4096),"ring":eff(opts.ring, 10240),"foreign":foreign,"free":true}}));
        let rc = Arc::new(RunCtx::new(opts.seed.wrapping_add(round as u64)));
        let mut joins = Vec::new();
        for t in 1..=opts.threads {
            let prog: Vec<Value> = programs[rnd(programs.len())].iter().map(|st| remap(st, t)).collect();
            let rc = rc.clone();
            let delay = rnd(300) as u64;
            joins.push(std::thread::Builder::new().name(format!("fv-free-{t}")).spawn(move || {
                rt::ME.with(|m| m.set(Some(t)));
                std::thread::sleep(Duration::from_micros(delay));
                emit(json!({"ev":"spawn","t":t}));
                let mut actor = Actor { t };
                // the ring is known by its thread before the first command is pushed on it (a drain that
                // cannot be attributed would leave that command "waiting" in Abs's cut bookkeeping)
                if let Some(chan) = verif::touch_sender() {
                    shared().chan_thread.lock().unwrap().insert(chan, t);
                }
                for st in &prog {
                    exec(&mut actor, &rc, st);
                    if st["op"] == "exit" {
                        break;
                    }
                }
                while let Some(h) = held_pop() {
                    drop(h);
                }
            }).unwrap());
        }
        // a tracing call that blocks (C07) keeps its thread from finishing
        let deadline = std::time::Instant::now() + Duration::from_secs(10);
        while joins.iter().any(|j| !j.is_finished()) {
            if std::time::Instant::now() > deadline {
                return hung(&mut out, round, "a tracing call on a worker thread");
            }
            std::thread::sleep(Duration::from_millis(1));
        }
        for (i, j) in joins.into_iter().enumerate() {
            let _ = j.join();
            let t = i + 1;
            let mut ret = serde_json::Map::new();
            ret.insert("ev".into(), json!("ret"));
            ret.insert("t".into(), json!(t));
            ret.insert("op".into(), json!("exit"));
            crate::ops::finish_ret(t, &mut ret);
            emit(Value::Object(ret));
        }
        // spans a program left alive (it ended early): finished here, on a helper thread
        let left: Vec<i64> = rc.spans.lock().unwrap().keys().copied().collect();
        if !left.is_empty() {
            let rc2 = rc.clone();
            let _ = std::thread::spawn(move || {
                rt::ME.with(|m| m.set(Some(99)));
                let mut actor = Actor { t: 99 };
                let mut l = left;
                l.sort();
                l.reverse();
                for h in l {
                    exec(&mut actor, &rc2, &json!({"ev":"call","t":99,"op":"drop","h":h}));
                }
            })
            .join();
        }
        // "Delivery needs no further call": every so often nobody flushes until the reporter has been
        // quiet for 400 ms (more than a thousand report intervals); whatever is due must be there by then
        if opts.idle_every > 0 && round % opts.idle_every == opts.idle_every - 1 {
            let done_us = rt::mono_us() as u64;
            let start = std::time::Instant::now();
            let mut seen = s.nrecs.load(Ordering::SeqCst);
            let mut stable = std::time::Instant::now();
            while start.elapsed() < Duration::from_secs(5) {
                std::thread::sleep(Duration::from_millis(2));
                let now = s.nrecs.load(Ordering::SeqCst);
                if now != seen {
                    seen = now;
                    stable = std::time::Instant::now();
                } else if stable.elapsed() >= Duration::from_millis(400) {
                    break;
                }
            }
            let last = s.last_rec_us.load(Ordering::SeqCst);
            emit(json!({"ev":"idle","waited_us":start.elapsed().as_micros() as u64,
                "delay_us": if last > done_us { last - done_us } else { 0 }}));
        }
        // "at the latest when a flush() called afterwards returns": every third round calls flush() once,
        // at once - it may well overlap a cycle of the background collector - and what was due when it was
        // called must be there when it returns
        if round % 3 == 1 {
            emit(json!({"ev":"call","t":0,"op":"flush"}));
            let (tx, rx) = std::sync::mpsc::channel();
            std::thread::spawn(move || {
                fastrace::flush();
                let _ = tx.send(());
            });
            if rx.recv_timeout(Duration::from_secs(10)).is_err() {
                return hung(&mut out, round, "flush()");
            }
            emit(json!({"ev":"ret","t":0,"op":"flush"}));
        }
        // two report intervals and two explicit cycles later everything must have arrived
        std::thread::sleep(Duration::from_micros(opts.interval_us * 3 + 500));
        if !flush_twice() {
            return hung(&mut out, round, "flush()");
        }
        let st = verif::collector_stats();
        let deadrx = {
            let m = s.chan_thread.lock().unwrap();
            st.receivers.iter().filter(|c| m.contains_key(*c)).count()
        };
        emit(json!({"ev":"stats",
            "active": st.active.iter().map(|a| rt::cid_out(a.collect_id)).filter(|c| !foreign.contains(c)).collect::<Vec<_>>(),
            "sets": st.active.iter().map(|a| a.buffered_sets).sum::<usize>(),
            "dang": st.active.iter().map(|a| a.danglings).sum::<usize>(),
            // receivers of this round's worker threads (all joined by now); the collector's own thread may
            // have a ring too when the reporter traces itself
            "deadrx": deadrx,
            "heap": crate::steer::live_heap()}));
        emit(json!({"ev":"end","run":round,"misses":0,"hung":false}));
        for l in rt::take_log() {
            out.write_all(l.as_bytes())?;
            out.write_all(b"\n")?;
        }
    }
    out.flush()?;
    Ok(0)
}


/// C02 "span ids are non-zero and distinct for distinct spans": ids are a per-thread prefix plus a
/// counter, so only many threads can show a clash.  `threads` short-lived threads each create a
/// root, a child and a local span and report the ids the library gave them.
pub fn ids(output: &str, threads: usize) -> std::io::Result<i32> {
    use fastrace::prelude::*;
    fastrace::set_reporter(rt::CapturingReporter, fastrace::collector::Config::default());
    shared().free.store(true, Ordering::SeqCst);
    let all = Arc::new(std::sync::Mutex::new(Vec::<String>::new()));
    let mut joins = Vec::new();
    for t in 0..threads {
        let all = all.clone();
        joins.push(std::thread::spawn(move || {
            let root = Span::root("r", SpanContext::new(fastrace::collector::TraceId(t as u128 + 1), fastrace::collector::SpanId(7)));
            let child = Span::enter_with_parent("c", &root);
            let mut mine = Vec::new();
            for s in [&root, &child] {
                if let Some(c) = SpanContext::from_span(s) {
                    mine.push(format!("{:016x}", c.span_id.0));
                }
            }
            let _g = root.set_local_parent();
            let _l = LocalSpan::enter_with_local_parent("l");
            if let Some(c) = SpanContext::current_local_parent() {
                mine.push(format!("{:016x}", c.span_id.0));
            }
            all.lock().unwrap().extend(mine);
        }));
        if joins.len() >= 64 {
            for j in joins.drain(..) {
                let _ = j.join();
            }
        }
    }
    for j in joins {
        let _ = j.join();
    }
    fastrace::flush();
    let ids = all.lock().unwrap().clone();
    let mut out = std::io::BufWriter::new(std::fs::File::create(output)?);
    writeln!(out, "{}", json!({"ev":"reset","run":0,"cfg":{"cancelable":false,"enabled":true,"ready":true,"queue":10240,"stack":4096,"ring":10240,"foreign":[],"free":true}}))?;
    writeln!(out, "{}", json!({"ev":"ids","threads":threads,"ids":ids}))?;
    writeln!(out, "{}", json!({"ev":"end","run":0,"misses":0,"hung":false}))?;
    out.flush()?;
    Ok(0)
}

/// "At the latest when a flush() called afterwards returns" with a long backlog: `n` spans of one
/// trace are finished (on the root's thread, or on a worker that is joined before the root finishes)
/// while no collector cycle runs (report interval of an hour), then one flush().  What the reporter
/// has been given when flush() returns is recorded.
pub fn burst(output: &str, n: usize, cancelable: bool, cross: bool) -> std::io::Result<i32> {
    use fastrace::prelude::*;
    fastrace::set_reporter(
        rt::CapturingReporter,
        fastrace::collector::Config::default().cancelable(cancelable).report_interval(Duration::from_secs(3600)),
    );
    shared().free.store(true, Ordering::SeqCst);
    // the collector's start-up cycle
    std::thread::sleep(Duration::from_millis(300));
    let before = shared().nrecs.load(Ordering::SeqCst);
    let root = Span::root("burst-root", SpanContext::new(fastrace::collector::TraceId(0xb0057), fastrace::collector::SpanId(1)));
    if cross {
        let r = &root;
        std::thread::scope(|sc| {
            sc.spawn(move || {
                for _ in 0..n {
                    let _c = Span::enter_with_parent("burst-child", r);
                }
            });
        });
    } else {
        for _ in 0..n {
            let _c = Span::enter_with_parent("burst-child", &root);
        }
    }
    drop(root);
    fastrace::flush();
    let by_flush = shared().nrecs.load(Ordering::SeqCst) - before;
    fastrace::flush();
    fastrace::flush();
    let later = shared().nrecs.load(Ordering::SeqCst) - before;
    let mut out = std::io::BufWriter::new(std::fs::File::create(output)?);
    writeln!(out, "{}", json!({"ev":"reset","run":0,"cfg":{"cancelable":cancelable,"enabled":true,"ready":true,"queue":10240,"stack":4096,"ring":10240,"foreign":[],"free":true}}))?;
    writeln!(out, "{}", json!({"ev":"burst","finished":n + 1,"by_flush":by_flush,"later":later,"cross":cross}))?;
    writeln!(out, "{}", json!({"ev":"end","run":0,"misses":0,"hung":false}))?;
    out.flush()?;
    Ok(0)
}


/// Several full queues in one sweep: a root started on the thread whose queue was registered LAST and finished on the
/// thread whose queue was registered FIRST, four threads in between with `n` finished spans each, all queued before a
/// single flush().  Everything is delivered by that flush (C01) and the collector keeps nothing afterwards (C08): a
/// sweep takes every queue, however much there is in the others.
pub fn burst_multi(output: &str, n: usize) -> std::io::Result<i32> {
    use fastrace::prelude::*;
    use std::sync::mpsc::channel;
    fastrace::set_reporter(rt::CapturingReporter, fastrace::collector::Config::default().report_interval(Duration::from_secs(3600)));
    shared().free.store(true, Ordering::SeqCst);
    std::thread::sleep(Duration::from_millis(300));
    let foreign: Vec<usize> = verif::collector_stats().active.iter().map(|a| rt::cid_out(a.collect_id)).collect();
    let before = shared().nrecs.load(Ordering::SeqCst);
    let (hold_tx, hold_rx) = channel::<()>();
    let hold_rx = std::sync::Arc::new(std::sync::Mutex::new(hold_rx));
    let (reg_tx, reg_rx) = channel::<()>();
    let (span_tx, span_rx) = channel::<Span>();
    let (fin_tx, fin_rx) = channel::<()>();
    let mut joins = Vec::new();
    // registered first: finishes the root it is handed
    {
        let reg_tx = reg_tx.clone();
        let hold = hold_rx.clone();
        joins.push(std::thread::spawn(move || {
            verif::touch_sender();
            let _ = reg_tx.send(());
            if let Ok(root) = span_rx.recv() {
                drop(root);
            }
            let _ = fin_tx.send(());
            let _ = hold.lock().map(|h| h.recv_timeout(Duration::from_secs(60)));
        }));
    }
    let _ = reg_rx.recv_timeout(Duration::from_secs(10));
    let (go_tx, go_rx) = channel::<()>();
    let go_rx = std::sync::Arc::new(std::sync::Mutex::new(go_rx));
    let (busy_tx, busy_rx) = channel::<()>();
    for b in 0..4u128 {
        let reg_tx = reg_tx.clone();
        let busy_tx = busy_tx.clone();
        let go = go_rx.clone();
        let hold = hold_rx.clone();
        joins.push(std::thread::spawn(move || {
            verif::touch_sender();
            let _ = reg_tx.send(());
            let _ = go.lock().map(|g| g.recv_timeout(Duration::from_secs(30)));
            let r = Span::root("busy-root", SpanContext::new(fastrace::collector::TraceId(0xb5000 + b), fastrace::collector::SpanId(1)));
            for _ in 0..n {
                let _c = Span::enter_with_parent("busy-child", &r);
            }
            drop(r);
            let _ = busy_tx.send(());
            let _ = hold.lock().map(|h| h.recv_timeout(Duration::from_secs(60)));
        }));
        let _ = reg_rx.recv_timeout(Duration::from_secs(10));
    }
    // registered last: starts the root
    {
        let reg_tx = reg_tx.clone();
        let hold = hold_rx.clone();
        joins.push(std::thread::spawn(move || {
            verif::touch_sender();
            let _ = reg_tx.send(());
            let root = Span::root("cross-root", SpanContext::new(fastrace::collector::TraceId(0xb5fff), fastrace::collector::SpanId(1)));
            let _ = span_tx.send(root);
            let _ = hold.lock().map(|h| h.recv_timeout(Duration::from_secs(60)));
        }));
    }
    let _ = reg_rx.recv_timeout(Duration::from_secs(10));
    let _ = fin_rx.recv_timeout(Duration::from_secs(10));
    for _ in 0..4 {
        let _ = go_tx.send(());
    }
    for _ in 0..4 {
        let _ = busy_rx.recv_timeout(Duration::from_secs(60));
    }
    fastrace::flush();
    let by_flush = shared().nrecs.load(Ordering::SeqCst) - before;
    fastrace::flush();
    fastrace::flush();
    let later = shared().nrecs.load(Ordering::SeqCst) - before;
    let st = verif::collector_stats();
    drop(hold_tx);
    for j in joins {
        let _ = j.join();
    }
    let mut out = std::io::BufWriter::new(std::fs::File::create(output)?);
    writeln!(out, "{}", json!({"ev":"reset","run":0,"cfg":{"cancelable":false,"enabled":true,"ready":true,"queue":10240,"stack":4096,"ring":10240,"foreign":foreign,"free":true}}))?;
    writeln!(out, "{}", json!({"ev":"burst","finished":1 + 4 * (n + 1),"by_flush":by_flush,"later":later,"cross":true}))?;
    writeln!(out, "{}", json!({"ev":"stats",
        "active": st.active.iter().map(|a| rt::cid_out(a.collect_id)).filter(|c| !foreign.contains(c)).collect::<Vec<_>>(),
        "sets": st.active.iter().map(|a| a.buffered_sets).sum::<usize>(), "dang": st.active.iter().map(|a| a.danglings).sum::<usize>(),
        "deadrx": 0, "heap": 0}))?;
    writeln!(out, "{}", json!({"ev":"end","run":0,"misses":0,"hung":false}))?;
    out.flush()?;
    Ok(0)
}

/// C09 on the built-in capacities: one thread starts and finishes `n` traces with no collector cycle in between
/// (ring of 10240 slots: from about the 3400th trace on the queue is full, start and finish signals are parked
/// by the thousand, span sets are refused).  Every call must return (watchdog), and once the queue has drained a
/// new trace - its root, a child, a child made by a thread that only ever submits - is delivered completely.
pub fn burst_roots(output: &str, n: usize) -> std::io::Result<i32> {
    use fastrace::prelude::*;
    fastrace::set_reporter(rt::CapturingReporter, fastrace::collector::Config::default().report_interval(Duration::from_secs(3600)));
    shared().free.store(true, Ordering::SeqCst);
    std::thread::sleep(Duration::from_millis(300));
    let (tx, rx) = std::sync::mpsc::channel::<usize>();
    let (go_tx, go_rx) = std::sync::mpsc::channel::<Span>();
    let (done_tx, done_rx) = std::sync::mpsc::channel::<()>();
    // the worker: overflows its own queue with children of the burst's first root, later only submits
    let worker = std::thread::spawn(move || {
        let mut made = 0usize;
        for i in 0..n {
            let r = Span::root("burstr-root", SpanContext::new(fastrace::collector::TraceId(0xb0000 + i as u128), fastrace::collector::SpanId(1)));
            let _c = Span::enter_with_parent("burstr-child", &r);
            made += 1;
        }
        let _ = tx.send(made);
        // after the drain: only a span set is submitted from this thread
        if let Ok(parent) = go_rx.recv() {
            {
                let _c = Span::enter_with_parent("late-worker-child", &parent);
            }
            drop(parent);
            let _ = done_tx.send(());
        }
    });
    let returned = rx.recv_timeout(Duration::from_secs(25)).is_ok();
    let mut late = 0usize;
    let mut late_ok = false;
    if returned {
        let fl = flush_twice();
        let before = shared().nrecs.load(Ordering::SeqCst);
        let root = Span::root("late-root", SpanContext::new(fastrace::collector::TraceId(0xbffff), fastrace::collector::SpanId(1)));
        let handed = Span::enter_with_parent("late-handed", &root);
        let _ = go_tx.send(handed);
        let worker_done = done_rx.recv_timeout(Duration::from_secs(10)).is_ok();
        {
            let _c = Span::enter_with_parent("late-child", &root);
        }
        drop(root);
        let fl2 = flush_twice();
        late = shared().nrecs.load(Ordering::SeqCst) - before;
        late_ok = fl && fl2 && worker_done;
        let _ = worker.join();
    }
    let mut out = std::io::BufWriter::new(std::fs::File::create(output)?);
    writeln!(out, "{}", json!({"ev":"reset","run":0,"cfg":{"cancelable":false,"enabled":true,"ready":true,"queue":10240,"stack":4096,"ring":10240,"foreign":[],"free":true}}))?;
    writeln!(out, "{}", json!({"ev":"burstr","roots":n,"returned":returned,"calls_after_ok":late_ok,"late_delivered":late,"late_expected":4}))?;
    writeln!(out, "{}", json!({"ev":"end","run":0,"misses":0,"hung":!returned}))?;
    out.flush()?;
    Ok(0)
}

/// flush() twice, on a helper thread: a collector that is stuck (C07) must not take the harness with it.
fn flush_twice() -> bool {
    let (tx, rx) = std::sync::mpsc::channel();
    std::thread::spawn(move || {
        fastrace::flush();
        fastrace::flush();
        let _ = tx.send(());
    });
    rx.recv_timeout(Duration::from_secs(10)).is_ok()
}

/// Something did not come back: the round ends with a `hang` event (a C07 violation), the process
/// cannot go on (the collector may hold its lock for ever).
fn hung(out: &mut std::io::BufWriter<std::fs::File>, round: usize, who: &str) -> std::io::Result<i32> {
    emit(json!({"ev":"hang","who":who}));
    emit(json!({"ev":"end","run":round,"misses":0,"hung":true}));
    let log = rt::take_log();
    if !log.iter().any(|l| l.contains("\"ev\":\"reset\"")) {
        writeln!(out, "{}", json!({"ev":"reset","run":round,"cfg":{"cancelable":false,"enabled":true,"ready":true,"queue":10240,"stack":4096,"ring":10240,"foreign":[],"free":true}}))?;
    }
    for l in log {
        out.write_all(l.as_bytes())?;
        out.write_all(b"\n")?;
    }
    out.flush()?;
    Ok(0)
}

/// C06 with attachments that are equal to each other: the same property added several times (by one
/// thread and by several), the same event several times.  Each call attaches once more.
pub fn dup(output: &str) -> std::io::Result<i32> {
    use fastrace::prelude::*;
    fastrace::set_reporter(rt::CapturingReporter, fastrace::collector::Config::default().report_interval(Duration::from_secs(3600)));
    shared().free.store(true, Ordering::SeqCst);
    std::thread::sleep(Duration::from_millis(300));
    rt::take_log();
    let root = Span::root("dup-root", SpanContext::new(fastrace::collector::TraceId(0xd0b1e), fastrace::collector::SpanId(1)));
    let shared_span = Span::enter_with_parent("dup-shared", &root);
    std::thread::scope(|sc| {
        for _ in 0..4 {
            sc.spawn(|| shared_span.add_property(|| ("shard.status", "ok")));
        }
    });
    shared_span.add_property(|| ("retry", "1"));
    fastrace::flush(); // one of the two equal batches is parked by an earlier cycle
    shared_span.add_property(|| ("retry", "1"));
    shared_span.add_properties(|| [("a", "b"), ("a", "b")]);
    for _ in 0..3 {
        shared_span.add_event(Event::new("tick"));
    }
    {
        let _g = shared_span.set_local_parent();
        LocalSpan::add_property(|| ("local", "same"));
        LocalSpan::add_property(|| ("local", "same"));
        LocalSpan::add_event(Event::new("ltick"));
        LocalSpan::add_event(Event::new("ltick"));
    }
    drop(shared_span);
    drop(root);
    fastrace::flush();
    let mut props = 0usize;
    let mut events = 0usize;
    for l in rt::take_log() {
        let Ok(e) = serde_json::from_str::<Value>(&l) else { continue };
        if e["ev"] == "report" {
            for r in e["recs"].as_array().cloned().unwrap_or_default() {
                if r["name"] == "dup-shared" {
                    props += r["props"].as_array().map(|a| a.len()).unwrap_or(0);
                    events += r["events"].as_array().map(|a| a.len()).unwrap_or(0);
                }
            }
        }
    }
    let mut out = std::io::BufWriter::new(std::fs::File::create(output)?);
    writeln!(out, "{}", json!({"ev":"reset","run":0,"cfg":{"cancelable":false,"enabled":true,"ready":true,"queue":10240,"stack":4096,"ring":10240,"foreign":[],"free":true}}))?;
    writeln!(out, "{}", json!({"ev":"dup","want_props":4 + 2 + 2 + 2,"got_props":props,"want_events":3 + 2,"got_events":events}))?;
    writeln!(out, "{}", json!({"ev":"end","run":0,"misses":0,"hung":false}))?;
    out.flush()?;
    Ok(0)
}

/// Known finding D20 (C07 / C06): LocalSpan::with_property on a span that is not the innermost handle,
/// while a local-parent scope opened after it is still alive; everything is released in reverse order
/// of creation.  Run in a child process (`withline-child`): the pinned code fails a debug assertion and
/// then, in the span's destructor during unwinding, a second one, which aborts the process.
pub fn withline_child() -> i32 {
    use fastrace::prelude::*;
    fastrace::set_reporter(rt::CapturingReporter, fastrace::collector::Config::default().report_interval(Duration::from_secs(3600)));
    shared().free.store(true, Ordering::SeqCst);
    std::thread::sleep(Duration::from_millis(100));
    rt::take_log();
    let root = Span::root("wl-root", SpanContext::new(fastrace::collector::TraceId(0x317e), fastrace::collector::SpanId(1)));
    let other = Span::root("wl-other", SpanContext::new(fastrace::collector::TraceId(0x317f), fastrace::collector::SpanId(1)));
    {
        let _g = root.set_local_parent();
        let s = LocalSpan::enter_with_local_parent("wl-outer");
        let g2 = other.set_local_parent();
        let s = s.with_property(|| ("wl-key", "wl-value"));
        drop(g2);
        drop(s);
    }
    drop(other);
    drop(root);
    fastrace::flush();
    let delivered = rt::take_log().iter().any(|l| l.contains("\"wl-outer\"") && l.contains("wl-key"));
    if delivered { 0 } else { 7 }
}

pub fn withline(output: &str) -> std::io::Result<i32> {
    let exe = std::env::current_exe()?;
    let st = std::process::Command::new(exe).arg("withline-child").stdout(std::process::Stdio::null()).stderr(std::process::Stdio::null()).status()?;
    let outcome = match st.code() {
        Some(0) => "ok",
        Some(7) => "properties-dropped",
        Some(_) => "panic",
        None => "abort",
    };
    let mut out = std::io::BufWriter::new(std::fs::File::create(output)?);
    writeln!(out, "{}", json!({"ev":"reset","run":0,"cfg":{"cancelable":false,"enabled":true,"ready":true,"queue":10240,"stack":4096,"ring":10240,"foreign":[],"free":true}}))?;
    writeln!(out, "{}", json!({"ev":"withline","outcome":outcome}))?;
    writeln!(out, "{}", json!({"ev":"end","run":0,"misses":0,"hung":false}))?;
    out.flush()?;
    Ok(0)
}

/// C01 "at the latest when a flush() called afterwards returns", with the flush() overlapping another
/// collector cycle that has already drained the queues: the first flush() is held inside report(); a
/// span finishes meanwhile; a second flush() is called and must deliver it before it returns.
pub fn overlap(output: &str) -> std::io::Result<i32> {
    let s = shared();
    s.free.store(true, Ordering::SeqCst);
    verif::set_manual(false);
    rt::install_hooks();
    fastrace::set_reporter(rt::CapturingReporter, fastrace::collector::Config::default().report_interval(Duration::from_secs(3600)));
    std::thread::sleep(Duration::from_millis(300));
    rt::take_log();
    let rc = Arc::new(RunCtx::new(7));
    emit(json!({"ev":"reset","run":0,"cfg":{"cancelable":false,"enabled":true,"ready":true,"queue":10240,"stack":4096,"ring":10240,"foreign":[],"free":true}}));
    rt::ME.with(|m| m.set(Some(1)));
    emit(json!({"ev":"spawn","t":1}));
    let mut me = Actor { t: 1 };
    exec(&mut me, &rc, &json!({"ev":"call","t":1,"op":"root","h":101,"tr":1,"smp":true}));
    exec(&mut me, &rc, &json!({"ev":"call","t":1,"op":"drop","h":101}));
    s.report_gate.store(true, Ordering::SeqCst);
    let flush_on = |t: usize| {
        std::thread::spawn(move || {
            emit(json!({"ev":"call","t":t,"op":"flush"}));
            fastrace::flush();
            emit(json!({"ev":"ret","t":t,"op":"flush"}));
        })
    };
    let f1 = flush_on(2);
    // until the first cycle is inside report()
    let deadline = std::time::Instant::now() + Duration::from_secs(5);
    while !s.in_report.load(Ordering::SeqCst) && std::time::Instant::now() < deadline {
        std::thread::sleep(Duration::from_micros(200));
    }
    exec(&mut me, &rc, &json!({"ev":"call","t":1,"op":"root","h":102,"tr":2,"smp":true}));
    exec(&mut me, &rc, &json!({"ev":"call","t":1,"op":"drop","h":102}));
    // C07: while the reporter is busy inside report(), a thread that has never traced makes its first
    // tracing calls.  Registering its queue may wait for a sweep over the queues, never for the reporter.
    let fresh = {
        let rc = rc.clone();
        std::thread::spawn(move || {
            rt::ME.with(|m| m.set(Some(4)));
            emit(json!({"ev":"spawn","t":4}));
            let mut a = Actor { t: 4 };
            exec(&mut a, &rc, &json!({"ev":"call","t":4,"op":"root","h":403,"tr":2,"smp":true}));
            exec(&mut a, &rc, &json!({"ev":"call","t":4,"op":"drop","h":403}));
        })
    };
    let deadline = std::time::Instant::now() + Duration::from_secs(2);
    while !fresh.is_finished() && std::time::Instant::now() < deadline {
        std::thread::sleep(Duration::from_millis(1));
    }
    if !fresh.is_finished() && s.in_report.load(Ordering::SeqCst) {
        emit(json!({"ev":"hang","p":"C07","who":"the first tracing call of a new thread waits while the reporter is inside report()"}));
    }
    let f2 = flush_on(3);
    std::thread::sleep(Duration::from_millis(50));
    s.report_gate.store(false, Ordering::SeqCst);
    let mut hung = false;
    for f in [f1, f2] {
        let deadline = std::time::Instant::now() + Duration::from_secs(10);
        while !f.is_finished() && std::time::Instant::now() < deadline {
            std::thread::sleep(Duration::from_millis(1));
        }
        if f.is_finished() {
            let _ = f.join();
        } else {
            hung = true;
        }
    }
    let _ = fresh.join();
    if hung {
        emit(json!({"ev":"hang","who":"flush() overlapping another cycle"}));
    } else {
        fastrace::flush();
    }
    emit(json!({"ev":"end","run":0,"misses":0,"hung":hung}));
    let mut out = std::io::BufWriter::new(std::fs::File::create(output)?);
    for l in rt::take_log() {
        out.write_all(l.as_bytes())?;
        out.write_all(b"\n")?;
    }
    out.flush()?;
    Ok(0)
}
