//! Steered replay: the behaviours TLC printed are executed on real OS threads against the real
//! fastrace; a scheduler lets exactly one actor run at a time and parks actors at the hook points,
//! so the interleaving of ring pushes and collector steps is the one TLC chose.
//!
//! Steering is best effort and never a verdict: when the code under test stops somewhere the
//! behaviour did not predict, the scheduler lets it run on, counts a miss and continues.

use std::collections::HashMap;
use std::io::{BufRead, Write};
use std::sync::atomic::Ordering;
use std::sync::mpsc::{self, Receiver, Sender};
use std::sync::Arc;
use std::thread::JoinHandle;
use std::time::{Duration, Instant};

use fastrace::verif;
use serde_json::{json, Map, Value};

use crate::ops::{exec, finish_ret, Actor, RunCtx};
use crate::rt::{self, emit, gate, shared, Role, Stop, StopKind};

enum Cmd {
    Run(Value),
}

struct ActorHandle {
    tx: Sender<Cmd>,
    join: Option<JoinHandle<()>>,
    parked: bool,
    busy: bool, // inside a call
    exiting: bool,
    current: Option<Value>,
    exit_reported: bool,
    dead: bool,
}

pub struct Opts {
    pub cancelable: bool,
    pub ready: bool,
    pub disabled: bool, // the harness was built against fastrace without the `enable` feature
    pub ring: usize,
    pub queue: usize,
    pub stack: usize,
    pub seed: u64,
    pub timeout_ms: u64,
    pub op_sleep_us: u64,
    pub churn: bool,
}

struct Sched {
    rx: Receiver<Stop>,
    actors: HashMap<usize, ActorHandle>,
    col_tx: Sender<u8>,
    col_parked: bool,
    col_busy: bool,
    col_owner: Option<usize>, // flush()-owned cycle: the calling thread
    misses: usize,
    hung: bool,
    timeout: Duration,
    rc: Arc<RunCtx>,
    open: HashMap<usize, Vec<(&'static str, i64)>>, // what each thread's caller still holds, innermost last
    starting: Vec<usize>,
    /// no reporter / compiled out: a thread normally never creates a sender, so its exit reports nothing
    inert: bool,
    cancelable: bool,
}

fn spawn_collector_actor() -> Sender<u8> {
    let (tx, rx) = mpsc::channel::<u8>();
    std::thread::Builder::new()
        .name("fv-collector".into())
        .spawn(move || {
            while let Ok(_) = rx.recv() {
                verif::run_collector_cycle();
                rt::post(Role::Collector, StopKind::Done);
            }
        })
        .unwrap();
    tx
}

impl Sched {
    fn spawn(&mut self, t: usize) {
        self.spawn_with(t, None)
    }

    fn spawn_with(&mut self, t: usize, dtor: Option<Value>) {
        if self.actors.contains_key(&t) {
            self.misses += 1;
            return;
        }
        let (tx, rx) = mpsc::channel::<Cmd>();
        let rc = self.rc.clone();
        *shared().granted.lock().unwrap() = Some(t);
        let join = std::thread::Builder::new()
            .name(format!("fv-actor-{t}"))
            .spawn(move || {
                let early = dtor.as_ref().map(|d| d["when"] == "early").unwrap_or(false);
                let mk = |d: &Value| crate::ops::DtorBox { t, rc: rc.clone(), ops: d["ops"].as_array().cloned().unwrap_or_default(), early };
                if let (Some(d), true) = (dtor.as_ref(), early) {
                    // registered before fastrace's thread-locals: destroyed after them
                    crate::ops::DTOR.with(|c| *c.borrow_mut() = Some(mk(d)));
                }
                if let Some(chan) = verif::touch_sender() {
                    shared().chan_thread.lock().unwrap().insert(chan, t);
                }
                if let (Some(d), false) = (dtor.as_ref(), early) {
                    // fastrace's thread-locals first (sender, span stack, id generator), then ours
                    let _ = fastrace::prelude::SpanContext::current_local_parent();
                    let _ = fastrace::prelude::SpanId::next_id();
                    crate::ops::DTOR.with(|c| *c.borrow_mut() = Some(mk(d)));
                }
                rt::post(Role::Thread(t), StopKind::Done);
                let mut actor = Actor { t };
                while let Ok(Cmd::Run(step)) = rx.recv() {
                    let is_exit = step["op"] == "exit";
                    exec(&mut actor, &rc, &step);
                    if is_exit {
                        // what the caller still holds is released in reverse order, then the
                        // thread-local destructors run (Sender::drop among them)
                        while let Some(h) = crate::ops::held_pop() {
                            drop(h);
                        }
                        return;
                    }
                    rt::post(Role::Thread(t), StopKind::Done);
                }
            })
            .unwrap();
        self.actors.insert(
            t,
            ActorHandle {
                tx,
                join: Some(join),
                parked: false,
                busy: true,
                exiting: false,
                current: None,
                exit_reported: false,
                dead: false,
            },
        );
        emit(json!({"ev":"spawn","t":t}));
        if self.col_busy {
            // the collector holds the receiver registry for its whole sweep: the new thread waits
            // for it inside its first touch of the sender; it is picked up when the sweep is over
            self.starting.push(t);
        } else {
            self.wait_thread(t);
        }
    }

    /// Threads that were waiting for the registry have registered once the sweep is over.
    fn settle_starting(&mut self) {
        if !self.col_busy {
            for t in std::mem::take(&mut self.starting) {
                if self.actors.get(&t).map(|a| a.busy).unwrap_or(false) {
                    self.wait_thread(t);
                }
            }
        }
    }

    /// Waits until thread t parks, finishes its call, or (after an exit) is gone.
    fn wait_thread(&mut self, t: usize) {
        let deadline = Instant::now() + self.timeout;
        let mut finished_polls = 0;
        loop {
            match self.rx.recv_timeout(Duration::from_micros(200)) {
                Ok(Stop { role, kind }) => {
                    self.note(role, kind);
                    if role == Role::Thread(t) {
                        return;
                    }
                }
                Err(_) => {
                    // Fallback for an exiting thread whose destructor never reported: its main
                    // function is long over and nothing parked.
                    let a = self.actors.get_mut(&t).unwrap();
                    if a.exiting && a.join.as_ref().map(|j| j.is_finished()).unwrap_or(true) {
                        finished_polls += 1;
                        if finished_polls > if self.inert { 20 } else { 1000 } {
                            if let Some(j) = a.join.take() {
                                let _ = j.join();
                            }
                            a.dead = true;
                            a.busy = false;
                            a.parked = false;
                            return;
                        }
                    }
                    if Instant::now() > deadline {
                        self.hang(format!("thread {t}"));
                        return;
                    }
                }
            }
        }
    }

    fn note(&mut self, role: Role, kind: StopKind) {
        match role {
            Role::Thread(t) => {
                if let Some(a) = self.actors.get_mut(&t) {
                    match kind {
                        StopKind::Park(_) => a.parked = true,
                        StopKind::Done => {
                            a.parked = false;
                            a.busy = false;
                            if a.exiting {
                                // Sender::drop is through; wait for the thread to be gone so that
                                // its ring is seen abandoned from now on
                                if let Some(j) = a.join.take() {
                                    let _ = j.join();
                                }
                                a.dead = true;
                            }
                            if self.col_owner == Some(t) {
                                // flush() returned: its cycle is over
                                self.col_owner = None;
                                self.col_busy = false;
                                self.col_parked = false;
                            }
                        }
                    }
                }
            }
            Role::Collector => match kind {
                StopKind::Park(_) => self.col_parked = true,
                StopKind::Done => {
                    self.col_parked = false;
                    self.col_busy = false;
                }
            },
        }
    }

    fn hang(&mut self, who: String) {
        if !self.hung {
            emit(json!({"ev":"hang","who":who}));
        }
        self.hung = true;
    }

    fn release_thread(&mut self, t: usize) {
        *shared().granted.lock().unwrap() = Some(t);
        if let Some(a) = self.actors.get_mut(&t) {
            a.parked = false;
        }
        gate(Role::Thread(t)).release();
        self.wait_thread(t);
    }

    /// Lets thread t finish the call it is in (used when the behaviour and the code disagree).
    fn drain_thread(&mut self, t: usize) {
        let mut n = 0;
        while self.actors.get(&t).map(|a| a.parked).unwrap_or(false) && !self.hung && n < 64 {
            self.release_thread(t);
            n += 1;
        }
    }

    fn call(&mut self, t: usize, step: &Value) {
        if !self.actors.contains_key(&t) {
            self.misses += 1;
            self.spawn(t);
        }
        if self.actors[&t].dead {
            self.misses += 1;
            return;
        }
        if self.actors[&t].busy {
            self.misses += 1;
            self.drain_thread(t);
        }
        let is_flush = step["op"] == "flush";
        let is_exit = step["op"] == "exit";
        {
            let o = self.open.entry(t).or_default();
            match step["op"].as_str().unwrap_or("") {
                "setlp" => o.push(("dropg", step["g"].as_i64().unwrap_or(0))),
                "lcstart" => o.push(("lcdrop", step["c"].as_i64().unwrap_or(0))),
                "lenter" => o.push(("lexit", step["l"].as_i64().unwrap_or(0))),
                "dropg" | "lcdrop" | "lccollect" | "lexit" => {
                    let key = match step["op"].as_str().unwrap_or("") {
                        "dropg" => "g",
                        "lexit" => "l",
                        _ => "c",
                    };
                    let n = step[key].as_i64().unwrap_or(0);
                    if let Some(i) = o.iter().rposition(|x| x.1 == n) {
                        o.remove(i);
                    }
                }
                _ => {}
            }
        }
        if is_flush && self.col_busy {
            self.misses += 1;
            self.drain_collector();
        }
        *shared().granted.lock().unwrap() = Some(t);
        {
            let a = self.actors.get_mut(&t).unwrap();
            a.busy = true;
            a.exiting = is_exit;
            a.current = Some(step.clone());
            let _ = a.tx.send(Cmd::Run(step.clone()));
        }
        if is_flush {
            self.col_busy = true;
            self.col_owner = Some(t);
            self.wait_collector();
            return;
        }
        self.wait_thread(t);
        // a call includes its first push attempt
        if self.actors[&t].parked {
            self.release_thread(t);
        }
        if is_exit {
            self.after_exit_step(t);
        }
    }

    fn after_exit_step(&mut self, t: usize) {
        if self.actors[&t].dead && !self.actors[&t].exit_reported {
            self.actors.get_mut(&t).unwrap().exit_reported = true;
            let mut ret = Map::new();
            ret.insert("ev".into(), json!("ret"));
            ret.insert("t".into(), json!(t));
            ret.insert("op".into(), json!("exit"));
            finish_ret(t, &mut ret);
            ret.insert("m".into(), json!(rt::mono_us()));
            emit(Value::Object(ret));
        }
    }

    fn push(&mut self, t: usize) {
        if self.actors.get(&t).map(|a| a.parked).unwrap_or(false) {
            let exiting = self.actors[&t].exiting && !self.actors[&t].dead;
            self.release_thread(t);
            if exiting {
                self.after_exit_step(t);
            }
        } else {
            self.misses += 1;
        }
    }

    /// Waits until the collector parks or its cycle is over.
    fn wait_collector(&mut self) {
        let deadline = Instant::now() + self.timeout;
        loop {
            match self.rx.recv_timeout(Duration::from_millis(5)) {
                Ok(Stop { role, kind }) => {
                    self.note(role, kind);
                    if role == Role::Collector {
                        // a flush()-owned cycle is over only when flush() has returned
                        if self.col_parked || self.col_owner.is_none() {
                            return;
                        }
                    } else if !self.col_busy {
                        return;
                    }
                }
                Err(_) => {
                    if Instant::now() > deadline {
                        self.hang("collector".into());
                        return;
                    }
                }
            }
        }
    }

    fn cyc(&mut self) {
        if self.col_busy {
            self.misses += 1;
            self.drain_collector();
        }
        self.col_busy = true;
        self.col_owner = None;
        let _ = self.col_tx.send(1);
        self.wait_collector();
        self.settle_starting();
    }

    fn col(&mut self) {
        if self.col_parked {
            self.col_parked = false;
            gate(Role::Collector).release();
            self.wait_collector();
            self.settle_starting();
        } else {
            self.misses += 1;
        }
    }

    fn drain_collector(&mut self) {
        let mut n = 0;
        while self.col_busy && !self.hung && n < 256 {
            if self.col_parked {
                self.col_parked = false;
                gate(Role::Collector).release();
            }
            self.wait_collector();
            n += 1;
        }
        self.settle_starting();
    }

    fn full_cycle(&mut self) {
        self.drain_collector();
        shared().steer.store(false, Ordering::SeqCst);
        verif::run_collector_cycle();
        shared().steer.store(true, Ordering::SeqCst);
    }

    /// The application installs its reporter again (same configuration): the collector object is replaced, the
    /// per-thread command queues and whatever the threads hold stay.  (The background thread this starts is held
    /// by the manual-mode gate like the first one.)
    fn reinstall(&mut self) {
        self.drain_collector();
        fastrace::set_reporter(rt::CapturingReporter, fastrace::collector::Config::default().cancelable(self.cancelable));
        emit(json!({"ev":"reinstall"}));
    }

    fn step(&mut self, step: &Value) {
        let ev = step["ev"].as_str().unwrap_or("");
        let t = step["t"].as_u64().unwrap_or(0) as usize;
        match ev {
            "spawn" => self.spawn_with(t, if step["dtor"].is_object() { Some(step["dtor"].clone()) } else { None }),
            "call" => self.call(t, step),
            "push" => self.push(t),
            "cyc" => self.cyc(),
            "col" => self.col(),
            "cycle" => self.full_cycle(),
            "reinstall" => self.reinstall(),
            _ => self.misses += 1,
        }
    }

    /// Starts a call and returns as soon as the thread parks (before its first push, too) or the
    /// call is over: every stop of the real code is a scheduling point of its own.
    fn start_call(&mut self, t: usize, step: &Value) {
        let is_flush = step["op"] == "flush";
        let is_exit = step["op"] == "exit";
        {
            let o = self.open.entry(t).or_default();
            match step["op"].as_str().unwrap_or("") {
                "setlp" => o.push(("dropg", step["g"].as_i64().unwrap_or(0))),
                "lcstart" => o.push(("lcdrop", step["c"].as_i64().unwrap_or(0))),
                "lenter" => o.push(("lexit", step["l"].as_i64().unwrap_or(0))),
                "dropg" | "lcdrop" | "lccollect" | "lexit" => {
                    let key = match step["op"].as_str().unwrap_or("") {
                        "dropg" => "g",
                        "lexit" => "l",
                        _ => "c",
                    };
                    let n = step[key].as_i64().unwrap_or(0);
                    if let Some(i) = o.iter().rposition(|x| x.1 == n) {
                        o.remove(i);
                    }
                }
                _ => {}
            }
        }
        *shared().granted.lock().unwrap() = Some(t);
        {
            let a = self.actors.get_mut(&t).unwrap();
            a.busy = true;
            a.exiting = is_exit;
            a.current = Some(step.clone());
            let _ = a.tx.send(Cmd::Run(step.clone()));
        }
        if is_flush {
            self.col_busy = true;
            self.col_owner = Some(t);
            self.wait_collector();
            self.settle_starting();
            return;
        }
        self.wait_thread(t);
        if is_exit {
            self.after_exit_step(t);
        }
    }

    /// Can thread t's next call be issued now?  Its handles must exist and nobody else may be
    /// inside a call on the same span or adapter.
    fn ready(&self, t: usize, step: &Value) -> bool {
        let op = step["op"].as_str().unwrap_or("");
        let creates_h = matches!(op, "root" | "child" | "childl" | "mknoop" | "rootctx");
        let mut need_span: Vec<i64> = Vec::new();
        if !creates_h {
            if let Some(h) = step["h"].as_i64() {
                if op != "fnew" || step["kind"] != "eop" {
                    need_span.push(h);
                }
            }
        }
        if let Some(ps) = step["ps"].as_array() {
            need_span.extend(ps.iter().filter_map(|x| x.as_i64()));
        }
        if let Some(s) = step["src"].as_i64() {
            if s != 0 {
                need_span.push(s);
            }
        }
        {
            let spans = self.rc.spans.lock().unwrap();
            if need_span.iter().any(|h| !spans.contains_key(h)) {
                return false;
            }
        }
        if op != "lccollect" {
            if let Some(ls) = step["ls"].as_i64() {
                if !self.rc.lsets.lock().unwrap().contains_key(&ls) {
                    return false;
                }
            }
        }
        if op != "fnew" {
            if let Some(f) = step["f"].as_i64() {
                if !self.rc.futs.lock().unwrap().contains_key(&f) {
                    return false;
                }
            }
        }
        // exclusivity
        for (u, a) in &self.actors {
            if *u == t || !a.busy {
                continue;
            }
            if let Some(cur) = &a.current {
                for k in ["h", "f"] {
                    if !step[k].is_null() && step[k] == cur[k] {
                        return false;
                    }
                }
                if let (Some(h), Some(ps)) = (step["h"].as_i64(), cur["ps"].as_array()) {
                    if !creates_h && ps.iter().any(|x| x.as_i64() == Some(h)) {
                        return false;
                    }
                }
            }
        }
        true
    }

    /// The behaviour's calls (per thread, in its order) under a random schedule over the stops the
    /// real code actually makes: explores windows the model's own interleavings do not know of.
    fn run_shuffled(&mut self, steps: &[Value], seed: u64) {
        use std::collections::{BTreeMap, VecDeque};
        let mut prog: BTreeMap<usize, VecDeque<Value>> = BTreeMap::new();
        let mut cycles = 0usize;
        for st in steps {
            match st["ev"].as_str().unwrap_or("") {
                "spawn" | "call" => prog.entry(st["t"].as_u64().unwrap_or(0) as usize).or_default().push_back(st.clone()),
                "cyc" => cycles += 1,
                _ => {}
            }
        }
        cycles += 1;
        let mut x = seed | 1;
        let mut rnd = move |n: usize| -> usize {
            x ^= x << 13;
            x ^= x >> 7;
            x ^= x << 17;
            (x % n.max(1) as u64) as usize
        };
        #[derive(Clone, Copy)]
        enum Ch {
            Spawn(usize),
            Start(usize),
            Release(usize),
            Cyc,
            Col,
        }
        let mut guard = 0;
        loop {
            guard += 1;
            if self.hung || guard > 5000 {
                break;
            }
            let mut ch: Vec<Ch> = Vec::new();
            for (t, p) in &prog {
                let Some(next) = p.front() else { continue };
                match self.actors.get(t) {
                    None => {
                        if next["ev"] == "spawn" {
                            ch.push(Ch::Spawn(*t));
                        }
                    }
                    Some(a) => {
                        if a.parked {
                            ch.push(Ch::Release(*t));
                            ch.push(Ch::Release(*t));
                        } else if !a.busy && !a.dead && next["ev"] == "call" && self.ready(*t, next) {
                            if !(next["op"] == "flush" && self.col_busy) {
                                ch.push(Ch::Start(*t));
                                ch.push(Ch::Start(*t));
                            }
                        }
                    }
                }
            }
            // parked threads whose program is already exhausted (multi-push last call)
            for (t, a) in &self.actors {
                if a.parked && prog.get(t).map(|p| p.is_empty()).unwrap_or(true) {
                    ch.push(Ch::Release(*t));
                }
            }
            if self.col_parked {
                ch.push(Ch::Col);
                ch.push(Ch::Col);
            } else if !self.col_busy && cycles > 0 && !ch.is_empty() {
                ch.push(Ch::Cyc);
            }
            if ch.is_empty() {
                break;
            }
            match ch[rnd(ch.len())] {
                Ch::Spawn(t) => {
                    prog.get_mut(&t).unwrap().pop_front();
                    self.spawn(t);
                }
                Ch::Start(t) => {
                    let st = prog.get_mut(&t).unwrap().pop_front().unwrap();
                    self.start_call(t, &st);
                }
                Ch::Release(t) => {
                    let exiting = self.actors[&t].exiting && !self.actors[&t].dead;
                    self.release_thread(t);
                    if exiting {
                        self.after_exit_step(t);
                    }
                }
                Ch::Cyc => {
                    cycles -= 1;
                    self.cyc();
                }
                Ch::Col => self.col(),
            }
        }
    }

    /// Everything the behaviour left open is finished here; on the unchanged tree there is nothing
    /// left to do.
    fn epilogue(&mut self) {
        self.drain_collector();
        let ts: Vec<usize> = {
            let mut v: Vec<usize> = self.actors.keys().copied().collect();
            v.sort();
            v
        };
        for t in &ts {
            self.drain_thread(*t);
        }
        // scopes and local spans still open are closed, innermost first, through ordinary calls
        for t in &ts {
            while let Some((op, n)) = self.open.get(t).and_then(|o| o.last().copied()) {
                if self.actors[t].dead || self.hung {
                    break;
                }
                let key = match op {
                    "dropg" => "g",
                    "lcdrop" => "c",
                    _ => "l",
                };
                self.call(*t, &json!({"ev":"call","t":t,"op":op,key:n}));
                self.drain_thread(*t);
            }
        }
        // spans nobody finished
        let left: Vec<i64> = self.rc.spans.lock().unwrap().keys().copied().collect();
        if !left.is_empty() {
            self.misses += 1;
            if let Some(t) = ts.iter().find(|t| !self.actors[t].dead).copied() {
                let mut left = left;
                left.sort();
                left.reverse();
                for h in left {
                    self.call(t, &json!({"ev":"call","t":t,"op":"drop","h":h}));
                    self.drain_thread(t);
                }
            } else {
                // every thread of the run is gone: a helper thread finishes what is left
                let t = 99;
                self.spawn(t);
                let mut left = left;
                left.sort();
                left.reverse();
                for h in left {
                    self.call(t, &json!({"ev":"call","t":t,"op":"drop","h":h}));
                    self.drain_thread(t);
                }
                self.call(t, &json!({"ev":"call","t":t,"op":"exit"}));
                self.drain_thread(t);
                self.after_exit_step(t);
            }
        }
        for t in &ts {
            if !self.actors[t].dead {
                self.misses += 1;
                self.call(*t, &json!({"ev":"call","t":t,"op":"exit"}));
                self.drain_thread(*t);
                if !self.actors[t].dead {
                    self.wait_thread(*t);
                }
                self.after_exit_step(*t);
            }
        }
    }
}

fn os_threads() -> usize {
    std::fs::read_dir("/proc/self/task").map(|d| d.count()).unwrap_or(0)
}

pub fn live_heap() -> i64 {
    crate::LIVE.load(Ordering::Relaxed) as i64
}

fn stats_event(foreign: &[usize]) -> Value {
    let st = verif::collector_stats();
    let live: Vec<usize> = shared().chan_thread.lock().unwrap().keys().copied().collect();
    let _ = live;
    json!({
        "ev": "stats",
        "active": st.active.iter().map(|a| rt::cid_out(a.collect_id)).filter(|c| !foreign.contains(c)).collect::<Vec<_>>(),
        "sets": st.active.iter().map(|a| a.buffered_sets).sum::<usize>(),
        "dang": st.active.iter().map(|a| a.danglings).sum::<usize>(),
        "deadrx": st.receivers.len(),
        "heap": live_heap(),
    })
}

/// Replays every behaviour of `input` (one JSON array of steps per line) and writes the recorded
/// events to `output`, each run introduced by a `reset` line.
pub fn run(input: &str, output: &str, opts: Opts) -> std::io::Result<i32> {
    let s = shared();
    rt::IS_SCHED.with(|c| c.set(true));
    s.op_sleep_us.store(opts.op_sleep_us, Ordering::Relaxed);
    verif::set_manual(true);
    verif::set_ring_capacity(opts.ring);
    verif::set_queue_capacity(opts.queue);
    verif::set_stack_capacity(opts.stack);
    rt::install_hooks();
    let threads_before = os_threads();
    if opts.ready {
        fastrace::set_reporter(
            rt::CapturingReporter,
            fastrace::collector::Config::default().cancelable(opts.cancelable),
        );
    }
    // the collector thread, if any, starts right inside set_reporter
    std::thread::sleep(Duration::from_millis(20));
    let sr_threads = os_threads() as i64 - threads_before as i64;
    // compiled out, flush() has nothing to run a cycle for: thread ids handed out while it is called
    // three times (a helper thread lives too briefly to be seen in /proc)
    let flush_threads = if opts.disabled {
        let tid = |t: std::thread::ThreadId| format!("{t:?}").trim_start_matches("ThreadId(").trim_end_matches(')').parse::<i64>().unwrap_or(0);
        let a = std::thread::spawn(|| std::thread::current().id()).join().unwrap();
        fastrace::flush();
        fastrace::flush();
        fastrace::flush();
        let b = std::thread::spawn(|| std::thread::current().id()).join().unwrap();
        tid(b) - tid(a) - 1
    } else {
        0
    };
    std::panic::set_hook(Box::new(|_| {}));

    let (tx, rx) = mpsc::channel::<Stop>();
    *s.stops.lock().unwrap() = Some(tx);
    let col_tx = spawn_collector_actor();
    let inp = std::io::BufReader::new(std::fs::File::open(input)?);
    let mut out = std::io::BufWriter::new(std::fs::File::create(output)?);
    let mut total_misses = 0usize;
    let mut runs = 0usize;
    let mut rx = Some(rx);

    for (idx, line) in inp.lines().enumerate() {
        let line = line?;
        if line.trim().is_empty() {
            continue;
        }
        let beh: Value = match serde_json::from_str(&line) {
            Ok(v) => v,
            Err(_) => continue,
        };
        let (id, steps) = if beh.is_object() {
            (beh["id"].clone(), beh["steps"].as_array().cloned().unwrap_or_default())
        } else {
            (json!(idx), beh.as_array().cloned().unwrap_or_default())
        };
        // ---- a clean slate: nothing registered, nothing pending
        s.steer.store(false, Ordering::SeqCst);
        for _ in 0..4 {
            if verif::collector_stats().receivers.is_empty() {
                break;
            }
            verif::run_collector_cycle();
        }
        rt::take_log();
        s.chan_thread.lock().unwrap().clear();
        s.parked.lock().unwrap().clear();
        s.acc.lock().unwrap().clear();
        let foreign: Vec<usize> = verif::collector_stats().active.iter().map(|a| rt::cid_out(a.collect_id)).collect();
        let eff = |v: usize, d: usize| if v == 0 { d } else { v };
        emit(json!({"ev":"reset","run":id,"cfg":{"cancelable":opts.cancelable,"enabled":!opts.disabled,"ready":opts.ready,"sr_threads":sr_threads,"flush_threads":flush_threads,
            "queue":eff(opts.queue, 10240),"stack":eff(opts.stack, 4096),"ring":eff(opts.ring, 10240),"foreign":foreign}}));
        if opts.churn {
            // the same behaviours over and over: the validator watches the bytes allocated at quiescence
            let mut log = s.log.lock().unwrap();
            if let Some(last) = log.pop() {
                let mut v: Value = serde_json::from_str(&last).unwrap();
                v["cfg"]["churn"] = json!(true);
                log.push(v.to_string());
            }
        }
        s.steer.store(true, Ordering::SeqCst);

        let mut sc = Sched {
            rx: rx.take().unwrap(),
            actors: HashMap::new(),
            col_tx: col_tx.clone(),
            col_parked: false,
            col_busy: false,
            col_owner: None,
            misses: 0,
            hung: false,
            timeout: Duration::from_millis(opts.timeout_ms),
            rc: Arc::new(RunCtx::new(opts.seed.wrapping_add(idx as u64))),
            open: HashMap::new(),
            starting: Vec::new(),
            inert: !opts.ready || opts.disabled,
            cancelable: opts.cancelable,
        };
        let is_prefix = beh["prefix"].as_bool().unwrap_or(false) || !beh["shuffle_seed"].is_null();
        if let Some(seed) = beh["shuffle_seed"].as_u64() {
            sc.run_shuffled(&steps, seed);
        } else {
            for st in &steps {
                if sc.hung {
                    break;
                }
                sc.step(st);
            }
        }
        if !sc.hung {
            let before = sc.misses;
            sc.epilogue();
            if is_prefix {
                // completing a prefix is expected work, not a disagreement
                sc.misses = before;
            }
        }
        s.steer.store(false, Ordering::SeqCst);
        // a collector cycle the behaviour left half-way, or one the scheduler has lost track of because the
        // code stops where no behaviour of the model does: let it run to its end before anything else
        // takes the collector's lock
        {
            let deadline = Instant::now() + Duration::from_secs(5);
            while s.in_cycle.load(Ordering::SeqCst) && !sc.hung {
                gate(Role::Collector).release();
                std::thread::sleep(Duration::from_micros(200));
                if Instant::now() > deadline {
                    sc.hang("collector (cycle does not end)".into());
                }
            }
        }
        if !sc.hung {
            // two more full cycles: whatever was still queued is consumed, receivers of exited
            // threads are noticed
            verif::run_collector_cycle();
            verif::run_collector_cycle();
            emit(json!({"ev":"idle"}));
            emit(stats_event(&foreign));
        }
        emit(json!({"ev":"end","run":id,"misses":sc.misses,"hung":sc.hung}));
        total_misses += sc.misses;
        runs += 1;
        for l in rt::take_log() {
            out.write_all(l.as_bytes())?;
            out.write_all(b"\n")?;
        }
        out.flush()?;
        if sc.hung {
            // threads of this run are stuck: the process cannot be reused
            eprintln!("HUNG run={} after {} runs", id, runs);
            return Ok(3);
        }
        rx = Some(sc.rx);
    }
    eprintln!("steer: runs={runs} misses={total_misses}");
    Ok(0)
}
