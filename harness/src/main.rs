//! Verification harness for fastrace (see /verif/DESIGN.md).
//!
//!   fvharness steer --in behaviours.jsonl --out trace.ndjson [--cancelable] [--ring K] [--queue Q] [--stack S] [--seed N]

mod adapters;
mod stress;
mod ops;
mod rt;
mod steer;

use std::alloc::{GlobalAlloc, Layout, System};
use std::collections::HashMap;
use std::sync::atomic::{AtomicIsize, Ordering};

/// Counts the bytes that are currently allocated (C08: state that the statistics hook cannot see
/// still shows up here).
pub struct Counting;
pub static LIVE: AtomicIsize = AtomicIsize::new(0);
unsafe impl GlobalAlloc for Counting {
    unsafe fn alloc(&self, l: Layout) -> *mut u8 {
        LIVE.fetch_add(l.size() as isize, Ordering::Relaxed);
        System.alloc(l)
    }
    unsafe fn dealloc(&self, p: *mut u8, l: Layout) {
        LIVE.fetch_sub(l.size() as isize, Ordering::Relaxed);
        System.dealloc(p, l)
    }
    unsafe fn realloc(&self, p: *mut u8, l: Layout, n: usize) -> *mut u8 {
        LIVE.fetch_add(n as isize - l.size() as isize, Ordering::Relaxed);
        System.realloc(p, l, n)
    }
}
#[global_allocator]
static GLOBAL: Counting = Counting;

fn main() {
    let args: Vec<String> = std::env::args().collect();
    if args.len() < 2 {
        eprintln!("usage: fvharness <steer|...> [options]");
        std::process::exit(2);
    }
    let mut kv: HashMap<String, String> = HashMap::new();
    let mut i = 2;
    while i < args.len() {
        let a = &args[i];
        if let Some(k) = a.strip_prefix("--") {
            if i + 1 < args.len() && !args[i + 1].starts_with("--") {
                kv.insert(k.to_string(), args[i + 1].clone());
                i += 2;
            } else {
                kv.insert(k.to_string(), "true".into());
                i += 1;
            }
        } else {
            i += 1;
        }
    }
    let num = |k: &str, d: u64| kv.get(k).and_then(|v| v.parse::<u64>().ok()).unwrap_or(d);
    let code = match args[1].as_str() {
        "steer" => {
            let opts = steer::Opts {
                cancelable: kv.contains_key("cancelable"),
                ready: !kv.contains_key("not-ready"),
                disabled: kv.contains_key("disabled"),
                ring: num("ring", 0) as usize,
                queue: num("queue", 0) as usize,
                stack: num("stack", 0) as usize,
                seed: num("seed", 1),
                timeout_ms: num("timeout-ms", 5000),
                op_sleep_us: num("op-sleep-us", 0),
                churn: kv.contains_key("churn"),
            };
            match steer::run(&kv["in"], &kv["out"], opts) {
                Ok(c) => c,
                Err(e) => {
                    eprintln!("harness error: {e}");
                    2
                }
            }
        }
        "ids" => match stress::ids(&kv["out"], num("threads", 600) as usize) {
            Ok(c) => c,
            Err(e) => {
                eprintln!("harness error: {e}");
                2
            }
        },
        "burst" => match stress::burst(&kv["out"], num("spans", 9000) as usize, kv.contains_key("cancelable"), kv.contains_key("cross")) {
            Ok(c) => c,
            Err(e) => {
                eprintln!("harness error: {e}");
                2
            }
        },
        "burstm" => match stress::burst_multi(&kv["out"], num("spans", 9000) as usize) {
            Ok(c) => c,
            Err(e) => {
                eprintln!("harness error: {e}");
                2
            }
        },
        "burstr" => match stress::burst_roots(&kv["out"], num("spans", 7000) as usize) {
            Ok(c) => c,
            Err(e) => {
                eprintln!("harness error: {e}");
                2
            }
        },
        "dup" => match stress::dup(&kv["out"]) {
            Ok(c) => c,
            Err(e) => {
                eprintln!("harness error: {e}");
                2
            }
        },
        "withline-child" => stress::withline_child(),
        "withline" => match stress::withline(&kv["out"]) {
            Ok(c) => c,
            Err(e) => {
                eprintln!("harness error: {e}");
                2
            }
        },
        "overlap" => match stress::overlap(&kv["out"]) {
            Ok(c) => c,
            Err(e) => {
                eprintln!("harness error: {e}");
                2
            }
        },
        "stress" => {
            let opts = stress::Opts {
                cancelable: kv.contains_key("cancelable"),
                threads: num("threads", 4) as usize,
                interval_us: num("interval-us", 200),
                ring: num("ring", 0) as usize,
                queue: num("queue", 0) as usize,
                stack: num("stack", 0) as usize,
                seed: num("seed", 1),
                rounds: num("rounds", 50) as usize,
                idle_every: num("idle-every", 20) as usize,
            };
            match stress::run(&kv["in"], &kv["out"], opts) {
                Ok(c) => c,
                Err(e) => {
                    eprintln!("harness error: {e}");
                    2
                }
            }
        }
        other => {
            eprintln!("unknown mode {other}");
            2
        }
    };
    std::process::exit(code);
}
