//! Verification harness for fastrace (see /verif/DESIGN.md).
//!
//!   fvharness steer --in behaviours.jsonl --out trace.ndjson [--cancelable] [--ring K] [--queue Q] [--stack S] [--seed N]

mod adapters;
mod ops;
mod rt;
mod steer;

use std::collections::HashMap;

fn main() {
    let args: Vec<String> = std::env::args().collect();
    if args.len() < 2 {
        eprintln!("usage: fvharness <steer|...> [options]");
        std::process::exit(2);
    }
    let mut kv: HashMap<String, String> = HashMap::new();
    let mut i = 2;
    while i < args.len() {
        let a = &args[i];
        if let Some(k) = a.strip_prefix("--") {
            if i + 1 < args.len() && !args[i + 1].starts_with("--") {
                kv.insert(k.to_string(), args[i + 1].clone());
                i += 2;
            } else {
                kv.insert(k.to_string(), "true".into());
                i += 1;
            }
        } else {
            i += 1;
        }
    }
    let num = |k: &str, d: u64| kv.get(k).and_then(|v| v.parse::<u64>().ok()).unwrap_or(d);
    let code = match args[1].as_str() {
        "steer" => {
            let opts = steer::Opts {
                cancelable: kv.contains_key("cancelable"),
                ready: !kv.contains_key("not-ready"),
                disabled: kv.contains_key("disabled"),
                ring: num("ring", 0) as usize,
                queue: num("queue", 0) as usize,
                stack: num("stack", 0) as usize,
                seed: num("seed", 1),
                timeout_ms: num("timeout-ms", 5000),
                op_sleep_us: num("op-sleep-us", 0),
            };
            match steer::run(&kv["in"], &kv["out"], opts) {
                Ok(c) => c,
                Err(e) => {
                    eprintln!("harness error: {e}");
                    2
                }
            }
        }
        other => {
            eprintln!("unknown mode {other}");
            2
        }
    };
    std::process::exit(code);
}
