//! Real adapters (fastrace::future::{InSpan, EnterOnPoll}, fastrace_futures::{Stream, Sink} InSpan)
//! around a scripted inner future / stream / sink.  The script of the next call is put into a
//! shared slot; the inner runs it (ordinary API calls with their events), reports `pollend`
//! right before it returns, and completes when the script says so.

use std::future::Future;
use std::pin::Pin;
use std::sync::{Arc, Mutex};
use std::task::{Context, Poll, RawWaker, RawWakerVTable, Waker};

use fastrace::future::FutureExt as _;
use fastrace::Span;
use fastrace_futures::{SinkExt as _, StreamExt as _};
use futures::sink::Sink;
use futures::stream::Stream;
use serde_json::json;

use crate::ops::{exec, Actor, RunCtx};
use crate::rt::emit;

pub struct Next {
    pub t: usize,
    pub f: i64,
    pub n: i64,
    pub inner: String,
    pub fin: bool,
    /// the call after this one is the last: an exactly sized stream knows (size_hint upper bound 0)
    pub tail: bool,
    /// a sink whose close completes with an error
    pub err: bool,
    /// a sink whose poll_ready / start_send / poll_flush report an error (the caller goes on to close it)
    pub errmid: bool,
    pub rc: *const RunCtx,
}
unsafe impl Send for Next {}

#[derive(Clone, Default)]
pub struct Slot(Arc<Mutex<Option<Next>>>, Arc<Mutex<Option<(i64, usize)>>>);

impl Slot {
    fn errmid(&self) -> bool {
        self.0.lock().unwrap().as_ref().map(|n| n.errmid).unwrap_or(false)
    }
    /// Runs the scripted inner actions; returns whether the inner completes now.
    fn run(&self) -> bool {
        self.run2().0
    }
    /// (completes now, tail, err)
    fn run2(&self) -> (bool, bool, bool) {
        let Some(nx) = self.0.lock().unwrap().take() else {
            return (false, false, false);
        };
        let rc = unsafe { &*nx.rc };
        let mut actor = Actor { t: nx.t };
        match nx.inner.as_str() {
            "ls" => {
                exec(&mut actor, rc, &json!({"ev":"call","t":nx.t,"op":"lenter","l":nx.n}));
                exec(&mut actor, rc, &json!({"ev":"call","t":nx.t,"op":"lexit","l":nx.n}));
            }
            "ev" => {
                exec(&mut actor, rc, &json!({"ev":"call","t":nx.t,"op":"levent","evt":{"name":nx.n,"props":[]}}));
            }
            "ctx" => {
                exec(&mut actor, rc, &json!({"ev":"call","t":nx.t,"op":"ctxl"}));
            }
            "hold" => {
                // a span the inner future creates under the local parent and keeps until it completes or is dropped
                let mut held = self.1.lock().unwrap();
                if held.is_none() {
                    exec(&mut actor, rc, &json!({"ev":"call","t":nx.t,"op":"childl","h":nx.n}));
                    *held = Some((nx.n, nx.rc as usize));
                }
            }
            _ => {}
        }
        let mut end = json!({"ev":"call","t":nx.t,"op":"pollend","f":crate::ops::sname(nx.f),"fin":nx.fin,"m":crate::rt::mono_us(),"w":crate::rt::wall_us()});
        if nx.fin {
            // the inner completes: what it holds is released first, inside the poll
            if let Some(c) = self.release() {
                end["held"] = json!(crate::ops::sname(c));
            }
        }
        emit(end);
        (nx.fin, nx.tail, nx.err)
    }
}

impl Slot {
    /// Finishes the span the inner holds (no events of its own: it is part of the enclosing call).
    fn release(&self) -> Option<i64> {
        let held = self.1.lock().unwrap().take();
        held.map(|(c, rc)| {
            let rc = unsafe { &*(rc as *const RunCtx) };
            let span = rc.spans.lock().unwrap().remove(&c);
            drop(span);
            c
        })
    }
}

pub struct SFut(Slot);
impl Drop for SFut {
    fn drop(&mut self) {
        self.0.release();
    }
}
impl Drop for SStream {
    fn drop(&mut self) {
        self.0.release();
    }
}
impl Drop for SSink {
    fn drop(&mut self) {
        self.0.release();
    }
}
/// The same scripted future without ownership of what the script holds (the enter_on_poll adapters
/// of one model adapter are built one per poll, each ahead of its poll).
pub struct SFutRef(Slot);
impl Future for SFutRef {
    type Output = ();
    fn poll(self: Pin<&mut Self>, _cx: &mut Context<'_>) -> Poll<()> {
        if self.0.run() {
            Poll::Ready(())
        } else {
            Poll::Pending
        }
    }
}
impl Future for SFut {
    type Output = ();
    fn poll(self: Pin<&mut Self>, _cx: &mut Context<'_>) -> Poll<()> {
        if self.0.run() {
            Poll::Ready(())
        } else {
            Poll::Pending
        }
    }
}

pub struct SStream(Slot, bool, bool);
impl Stream for SStream {
    type Item = u32;
    fn poll_next(mut self: Pin<&mut Self>, _cx: &mut Context<'_>) -> Poll<Option<u32>> {
        let (fin, tail, _) = self.0.run2();
        self.2 = tail || fin;
        if fin {
            Poll::Ready(None)
        } else {
            // alternate between yielding an item and pending
            self.1 = !self.1;
            if self.1 {
                Poll::Ready(Some(7))
            } else {
                Poll::Pending
            }
        }
    }
    fn size_hint(&self) -> (usize, Option<usize>) {
        // an exactly sized stream (stream::iter, once): after its last item nothing more will come
        if self.exhausted() {
            (0, Some(0))
        } else {
            (0, None)
        }
    }
}

impl SStream {
    fn exhausted(&self) -> bool {
        self.2
    }
}

pub struct SSink(Slot);
impl Sink<u32> for SSink {
    type Error = ();
    fn poll_ready(self: Pin<&mut Self>, _cx: &mut Context<'_>) -> Poll<Result<(), ()>> {
        let e = self.0.errmid();
        self.0.run();
        Poll::Ready(if e { Err(()) } else { Ok(()) })
    }
    fn start_send(self: Pin<&mut Self>, _item: u32) -> Result<(), ()> {
        let e = self.0.errmid();
        self.0.run();
        if e { Err(()) } else { Ok(()) }
    }
    fn poll_flush(self: Pin<&mut Self>, _cx: &mut Context<'_>) -> Poll<Result<(), ()>> {
        let e = self.0.errmid();
        self.0.run();
        if e { Poll::Ready(Err(())) } else { Poll::Pending }
    }
    fn poll_close(self: Pin<&mut Self>, _cx: &mut Context<'_>) -> Poll<Result<(), ()>> {
        let (fin, _, err) = self.0.run2();
        if fin {
            Poll::Ready(if err { Err(()) } else { Ok(()) })
        } else {
            Poll::Pending
        }
    }
}

fn noop_waker() -> Waker {
    fn clone(_: *const ()) -> RawWaker {
        RawWaker::new(std::ptr::null(), &VTABLE)
    }
    fn noop(_: *const ()) {}
    static VTABLE: RawWakerVTable = RawWakerVTable::new(clone, noop, noop, noop);
    unsafe { Waker::from_raw(RawWaker::new(std::ptr::null(), &VTABLE)) }
}

/// An enter_on_poll adapter for the poll that names its span `g`.  Every other one has already been polled once -
/// by a thread that has no local parent, with nothing for the inner future to do (it returns Pending): an adapter's
/// polls are independent of each other, so the poll that counts must behave as a first poll does.
fn eop_adapter(slot: &Slot, g: i64) -> Pin<Box<fastrace::future::EnterOnPoll<SFutRef>>> {
    let mut ad = Box::pin(SFutRef(slot.clone()).enter_on_poll(crate::ops::sname(g)));
    if g % 2 == 0 && slot.0.lock().unwrap().is_none() {
        ad = std::thread::spawn(move || {
            let waker = noop_waker();
            let mut cx = Context::from_waker(&waker);
            let _ = ad.as_mut().poll(&mut cx);
            ad
        })
        .join()
        .unwrap();
    }
    ad
}

enum Kind {
    Fut(Pin<Box<fastrace::future::InSpan<SFut>>>),
    Str(Pin<Box<fastrace_futures::InSpan<SStream>>>),
    Snk(Pin<Box<fastrace_futures::InSpan<SSink>>>),
    /// enter_on_poll: the adapter for the next poll is built *before* that poll (right after the
    /// previous one, or when the model adapter is created): what it decides at construction time is
    /// decided in the context of that moment, not of the poll
    Eop(SFut, Option<(i64, Pin<Box<fastrace::future::EnterOnPoll<SFutRef>>>)>),
}

pub struct Adapter {
    slot: Slot,
    kind: Kind,
    calls: usize,
}

impl Adapter {
    pub fn new(kind: &str, span: Option<Span>, _t: usize) -> Adapter {
        let slot = Slot::default();
        let span = span.unwrap_or_else(Span::noop);
        let kind = match kind {
            "str" => Kind::Str(Box::pin(SStream(slot.clone(), false, false).in_span(span))),
            "snk" => Kind::Snk(Box::pin(SSink(slot.clone()).in_span(span))),
            "eop" => Kind::Eop(SFut(slot.clone()), None),
            _ => Kind::Fut(Box::pin(SFut(slot.clone()).in_span(span))),
        };
        Adapter { slot, kind, calls: 0 }
    }

    /// One call on the adapter; returns whether it reported completion.
    pub fn poll(&mut self, rc: &RunCtx, t: usize, f: i64, g: i64, inner: &str, fin: bool, tail: bool) -> bool {
        let err = rc.variant(f, 2) == 1;
        // every third sink refuses what it is given (errors on the way); the caller closes it all the same
        let errmid = rc.variant(f + 7, 3) == 1;
        *self.slot.0.lock().unwrap() = Some(Next { t, f, n: g + 1, inner: inner.to_string(), fin, tail, err, errmid, rc: rc as *const RunCtx });
        let waker = noop_waker();
        let mut cx = Context::from_waker(&waker);
        self.calls += 1;
        let ready = match &mut self.kind {
            Kind::Fut(fut) => fut.as_mut().poll(&mut cx).is_ready(),
            Kind::Str(s) => matches!(s.as_mut().poll_next(&mut cx), Poll::Ready(None)),
            Kind::Snk(s) => {
                if fin {
                    s.as_mut().poll_close(&mut cx).is_ready()
                } else {
                    // ready, send, flush (pending), flush again, close attempt (pending), ...
                    // every other sink is closed earlier: ready, send, flush, close attempt (pending) - so that within
                    // five calls a close that is still pending is followed by the close that completes
                    let early_close = rc.variant(f + 11, 2) == 1;
                    match if early_close && self.calls % 5 == 4 { 0 } else if early_close && self.calls % 5 == 0 { 4 } else { self.calls % 5 } {
                        1 => {
                            let _ = s.as_mut().poll_ready(&mut cx);
                        }
                        2 => {
                            let _ = s.as_mut().start_send(1);
                        }
                        3 | 4 => {
                            let _ = s.as_mut().poll_flush(&mut cx);
                        }
                        _ => {
                            let _ = s.as_mut().poll_close(&mut cx);
                        }
                    }
                    false
                }
            }
            Kind::Eop(_, next) => {
                // a fresh enter_on_poll adapter for every poll (the name of the poll's local span is the
                // model's), built ahead when the name was known
                let mut ad = match next.take() {
                    Some((name, ad)) if name == g => ad,
                    _ => eop_adapter(&self.slot, g),
                };
                ad.as_mut().poll(&mut cx).is_ready()
            }
        };
        // a script the inner never ran (the adapter did not call it) is discarded
        self.slot.0.lock().unwrap().take();
        ready
    }

    /// enter_on_poll: builds the adapter of the poll that will name its span `g`, now.
    pub fn prepare(&mut self, g: i64) {
        if let Kind::Eop(_, next) = &mut self.kind {
            *next = Some((g, eop_adapter(&self.slot, g)));
        }
    }
}
