----------------------------- MODULE Collector -----------------------------
(***************************************************************************)
(* The batch processing of the global collector                            *)
(* (global_collector.rs: handle_commands after the sweep,                   *)
(* postprocess_span_collection, amend_span, amend_local_span,               *)
(* mount_danglings), as pure operators.                                     *)
(*                                                                         *)
(* One text, used twice: Fastrace.tla's collector step (`Finish`) applies   *)
(* Process to its `active` variable - this is what TLC explores - and       *)
(* TraceColl.tla applies the same Process to the batches the real collector *)
(* processed and compares what it reported and what it kept.                *)
(*                                                                         *)
(*   act      collect id -> [colls, dang]       (active_collectors)         *)
(*     colls  Seq([q, tr, par])                 span_collections            *)
(*     dang   Seq([id, k: "e" | "p", v])        danglings, in arrival order *)
(*   b        the batch: Seq(command); a command is                         *)
(*            [k: "start"|"drop"|"commit", c: cid] or                        *)
(*            [k: "submit", q: Seq(raw), tok: Seq([cid, tr, par])]           *)
(*     raw    [k: "span"|"event"|"props", id, par, n, props]; par = Zero:   *)
(*            the parent is the collection's                                *)
(*   cf       [canc: Config::cancelable, fixcd: repaired treatment of       *)
(*            DropCollect in the default configuration (7023695),           *)
(*            mut: "none" or the name of a deliberately wrong variant]      *)
(* Processing order as in the code: start, drop, submit, commit; then, in   *)
(* the default configuration, every active collector gives up what it has;  *)
(* then the late ("stale") sets.                                            *)
(***************************************************************************)
EXTENDS Naturals, Sequences, FiniteSets, SequencesExt

CONSTANT Zero     \* the id that stands for "no span": a raw span whose parent is Zero hangs under its collection's parent

CRng(s) == {s[i] : i \in DOMAIN s}
EmptyAC == [colls |-> <<>>, dang |-> <<>>]
Sel(b, kind) == SelectSeq(b, LAMBDA c : c.k = kind)

\* amend_span / amend_local_span: records and danglings of one collection
RECURSIVE AmendQ(_, _, _, _, _)
AmendQ(q, tr, par, recs, dang) ==
  IF q = <<>> THEN <<recs, dang>>
  ELSE LET r == Head(q)
           p == IF r.par = Zero THEN par ELSE r.par
       IN IF r.k = "span"
          THEN AmendQ(Tail(q), tr, par, Append(recs, [name |-> r.n, trace |-> tr, id |-> r.id, parent |-> p, props |-> r.props, events |-> <<>>]), dang)
          ELSE IF r.k = "event"
          THEN AmendQ(Tail(q), tr, par, recs, Append(dang, [id |-> p, k |-> "e", v |-> [name |-> r.n, props |-> r.props]]))
          ELSE AmendQ(Tail(q), tr, par, recs, Append(dang, [id |-> p, k |-> "p", v |-> r.props]))

RECURSIVE AmendAll(_, _, _)
AmendAll(colls, recs, dang) ==
  IF colls = <<>> THEN <<recs, dang>>
  ELSE LET r == AmendQ(Head(colls).q, Head(colls).tr, Head(colls).par, recs, dang) IN AmendAll(Tail(colls), r[1], r[2])

\* mount_danglings: the first record with a given id takes everything parked for that id
Mount(recs, dang) ==
  LET ids == {recs[i].id : i \in DOMAIN recs}
      forId(id) == SelectSeq(dang, LAMBDA d : d.id = id)
      first(i) == \A j \in 1..(i-1) : recs[j].id # recs[i].id
      evs(s) == LET e == SelectSeq(s, LAMBDA d : d.k = "e") IN [i \in DOMAIN e |-> e[i].v]
      prs(s) == FlattenSeq(LET p == SelectSeq(s, LAMBDA d : d.k = "p") IN [i \in DOMAIN p |-> p[i].v])
  IN <<[i \in DOMAIN recs |-> IF first(i) THEN [recs[i] EXCEPT !.props = @ \o prs(forId(recs[i].id)), !.events = @ \o evs(forId(recs[i].id))]
                                           ELSE recs[i]],
       SelectSeq(dang, LAMBDA d : d.id \notin ids)>>

\* postprocess_span_collection: <<records, danglings left>>
Post(colls, dang) == LET x == AmendAll(colls, <<>>, dang) IN Mount(x[1], x[2])

RECURSIVE ApplySubmits(_, _, _, _)
ApplySubmits(cf, act, subs, stale) ==
  IF subs = <<>> THEN <<act, stale>>
  ELSE LET s == Head(subs)
           RECURSIVE items(_, _, _)
           items(ac, st, i) ==
             IF i > Len(s.tok) THEN <<ac, st>>
             ELSE LET it == s.tok[i]
                      coll == [q |-> s.q, tr |-> it.tr, par |-> it.par]
                  IN IF cf.mut = "skip-second-copy" /\ \E j \in 1..(i-1) : s.tok[j].cid = it.cid THEN items(ac, st, i + 1)
                     ELSE IF it.cid \in DOMAIN ac
                     THEN items([ac EXCEPT ![it.cid].colls = Append(@, coll)], st, i + 1)
                     ELSE IF ~cf.canc THEN items(ac, Append(st, coll), i + 1)
                          ELSE items(ac, st, i + 1)
           r == items(act, stale, 1)
       IN ApplySubmits(cf, r[1], Tail(subs), r[2])

RECURSIVE DoCommits(_, _, _)
DoCommits(act, cs, out) ==
  IF cs = <<>> THEN <<act, out>>
  ELSE LET c == Head(cs).c IN
       IF c \in DOMAIN act
       THEN LET p == Post(act[c].colls, act[c].dang) IN
            DoCommits([x \in DOMAIN act \ {c} |-> act[x]], Tail(cs), out \o p[1])
       ELSE DoCommits(act, Tail(cs), out)

RECURSIVE DoStale(_, _)
DoStale(st, out) == IF st = <<>> THEN out ELSE DoStale(Tail(st), out \o Post(<<Head(st)>>, <<>>)[1])

RECURSIVE FlushActive(_, _, _, _)
FlushActive(cf, act, cids, out) ==     \* default configuration: every active collector gives up what it has
  IF cids = <<>> THEN <<act, out>>
  ELSE LET c == Head(cids) p == Post(act[c].colls, act[c].dang) IN
       FlushActive(cf, [act EXCEPT ![c] = [colls |-> <<>>, dang |-> IF cf.mut = "drain-danglings" THEN <<>> ELSE p[2]]], Tail(cids), out \o p[1])

\* <<active', records>>  (the order in which the default configuration visits the active collectors is the
\* hash map's in the code and by collect id here: compare the records trace by trace)
Process(cf, active, b) ==
  LET starts == {c.c : c \in CRng(Sel(b, "start"))}
      drops == IF cf.fixcd /\ ~cf.canc THEN {} ELSE {c.c : c \in CRng(Sel(b, "drop"))}
      a1 == [c \in (DOMAIN active \cup starts) |-> IF c \in starts THEN EmptyAC ELSE active[c]]
      a2 == [c \in (DOMAIN a1 \ drops) |-> a1[c]]
      r == ApplySubmits(cf, a2, Sel(b, "submit"), <<>>)
      cm == DoCommits(r[1], Sel(b, "commit"), <<>>)
      fa == IF cf.canc THEN <<cm[1], <<>>>> ELSE FlushActive(cf, cm[1], SetToSortSeq(DOMAIN cm[1], <), <<>>)
  IN <<fa[1], cm[2] \o fa[2] \o DoStale(r[2], <<>>)>>
=============================================================================
