CONSTANTS
  Threads = {1, 2}
  Born = {1}
  K = 1
  Prog <- ProgQ
  Exits = {1}
  Flushers = 1
  FixRecv = FALSE
  FixExitOrder = TRUE
  FixFifo = TRUE
  None = None
SPECIFICATION Spec
CHECK_DEADLOCK FALSE
INVARIANTS NoDestroy
