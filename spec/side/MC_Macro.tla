------------------------------ MODULE MC_Macro ------------------------------
(* Enumerates function kinds x naming x properties x bodies and prints one CASE per function. *)
EXTENDS Macro, Json
CONSTANT MaxBody
Bodies == UNION {[1..n -> Stmts] : n \in 0..MaxBody}
Cases == {[kind |-> k, naming |-> n, props |-> p, body |-> b, want |-> Run(b, 1, <<>>), spans |-> Spans(k, n, p, b)] :
            k \in Kinds, n \in Namings, p \in PropKinds, b \in Bodies}
Keep(c) == /\ WellFormed(c.kind, c.body)
           /\ (PerPoll(c.kind) => c.props = "none")
           /\ (c.props = "closing" => Len(c.body) <= 1)           \* the macro rejects properties with enter_on_poll
           \* thin out: all bodies for the plain kinds with default naming, a few shapes for every other combination
           /\ (c.naming \in {"default_f", "short_f"} => c.props = "none" /\ Len(c.body) <= 1)
           /\ \/ (c.naming = "default" /\ c.props = "none")
              \/ (Len(c.body) <= 1)
              \/ (c.kind \in {"sync", "async"} /\ Len(c.body) <= 2 /\ c.props \in {"format", "both"})
ASSUME \A c \in {x \in Cases : Keep(x)} : PrintT(<<"CASE", ToJson(c)>>)
VARIABLE x
Init == x = 0
Next == x' = x
=============================================================================
