------------------------------- MODULE Macro -------------------------------
(***************************************************************************)
(* What #[trace] must and must not change (C15), over a small statement    *)
(* language for function bodies.                                           *)
(*                                                                         *)
(* A body is a sequence of statements                                      *)
(*    E     a side effect (an entry in the effect log)                     *)
(*    Ref   uses the by-reference argument (logs it)                       *)
(*    Mov   moves the by-value argument out and logs it                    *)
(*    Ok    `ok()?`  : a fallible call that succeeds (logs "ok")           *)
(*    Err   `err()?` : a fallible call that fails: the error propagates    *)
(*    Ret   an early `return Ok(..)`                                       *)
(*    Pan   panics                                                         *)
(*    Aw    (async only) awaits a future that is pending once              *)
(*    In    calls another annotated function (which records its own span)  *)
(* Run(body) is its meaning: the effect log and how it ends.  The          *)
(* annotated function must have the same meaning, and - called under a     *)
(* local parent - must record exactly the spans Spans(..) says, nothing    *)
(* without a local parent.                                                 *)
(***************************************************************************)
EXTENDS Naturals, Sequences, FiniteSets, TLC, SequencesExt

Stmts == {"E", "Ref", "Mov", "Ok", "Err", "Ret", "Pan", "Aw", "In"}
\* atrait_eop: an async-trait method with enter_on_poll = true (one span per poll, like eop)
Kinds == {"sync", "async", "eop", "generic", "lifetime", "method", "amethod", "atrait", "atrait_eop"}
IsAsync(k) == k \in {"async", "eop", "amethod", "atrait", "atrait_eop"}
PerPoll(k) == k \in {"eop", "atrait_eop"}
\* default_f / short_f: the annotated function is literally called `f` (the name macros derive the path
\* from a nested helper function that has that name)
Namings == {"default", "short", "custom", "default_f", "short_f"}
\* closing: a value with an escaped closing brace and no opening one ("limit 100}}" means "limit 100}")
\* recording: a format argument whose Display implementation itself records an event through the local parent
PropKinds == {"none", "literal", "format", "escaped", "both", "closing", "recording"}

\* meaning of a body: <<effects, outcome>>; statement i logs with its position
RECURSIVE Run(_, _, _)
Run(body, i, log) ==
  IF i > Len(body) THEN [log |-> log, out |-> "value"]
  ELSE LET s == body[i] IN
       CASE s = "E"   -> Run(body, i + 1, Append(log, <<"e", i>>))
         [] s = "Ref" -> Run(body, i + 1, Append(log, <<"ref", i>>))
         [] s = "Mov" -> Run(body, i + 1, Append(log, <<"mov", i>>))
         [] s = "Ok"  -> Run(body, i + 1, Append(log, <<"ok", i>>))
         [] s = "Err" -> [log |-> Append(log, <<"err", i>>), out |-> "error"]
         [] s = "Ret" -> [log |-> log, out |-> "early"]
         [] s = "Pan" -> [log |-> log, out |-> "panic"]
         [] s = "Aw"  -> Run(body, i + 1, Append(log, <<"aw", i>>))
         [] s = "In"  -> Run(body, i + 1, Append(log, <<"in", i>>))

\* a by-value argument can be moved out once
WellFormed(kind, body) ==
  /\ Cardinality({i \in DOMAIN body : body[i] = "Mov"}) <= 1
  /\ (\E i \in DOMAIN body : body[i] = "Aw") => IsAsync(kind)

\* how many times the statements before the end are polled: one poll per pending await reached, plus one
Reached(body) == LET r == Run(body, 1, <<>>) IN r.log
Polls(body) == 1 + Cardinality({i \in DOMAIN Reached(body) : Reached(body)[i][1] = "aw"})
Inner(body) == Cardinality({i \in DOMAIN Reached(body) : Reached(body)[i][1] = "in"})

\* spans the annotated call records under a local parent: [n, kind, count, props]
\* (the inner annotated function adds one local span per call reached)
Spans(kind, naming, props, body) ==
  [own |-> IF PerPoll(kind) THEN Polls(body) ELSE 1,
   inner |-> Inner(body),
   suffix |-> IsAsync(kind) /\ naming \in {"default", "default_f"} /\ kind \notin {"atrait", "atrait_eop"},
   props |-> IF PerPoll(kind) THEN "none" ELSE props]
=============================================================================
