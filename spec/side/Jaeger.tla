------------------------------- MODULE Jaeger -------------------------------
(***************************************************************************)
(* The datagram splitter of fastrace-jaeger (JaegerReporter::try_report),  *)
(* transcribed statement by statement into PlusCal, over an abstract size  *)
(* function: a datagram carrying the spans i..j has size                   *)
(*      Base + ListHdr(j-i+1) + sz[i] + ... + sz[j]                        *)
(* (Thrift compact: the spans are list elements, each encoded on its own). *)
(*                                                                         *)
(* Checked by TLC for every size vector up to length MaxLen over the size  *)
(* classes in Classes (C20):                                               *)
(*   - the loop terminates (Termination, under weak fairness, and the      *)
(*     variant Variant decreases at every iteration);                      *)
(*   - every datagram sent is smaller than Limit;                          *)
(*   - the datagrams, concatenated, are the input minus exactly the spans  *)
(*     whose own datagram would not fit, in order, each once.              *)
(***************************************************************************)
EXTENDS Naturals, Sequences, FiniteSets, TLC, SequencesExt, Json

CONSTANTS Limit,     \* MAX_UDP_PACKAGE_SIZE
          Base,      \* bytes of an empty batch
          Classes,   \* span sizes to choose from
          MaxLen

ListHdr(n) == IF n < 15 THEN 1 ELSE 2
RECURSIVE Sum(_, _, _)
Sum(s, i, j) == IF i > j THEN 0 ELSE s[i] + Sum(s, i + 1, j)
Size(s, i, j) == Base + ListHdr(j - i + 1) + Sum(s, i, j)
Fits(s, i) == Size(s, i, i) < Limit

(* --algorithm TryReport {
  variables sz \in UNION {[1..n -> Classes] : n \in 0..MaxLen},
            per = Len(sz),        \* spans_per_batch
            sent = 0,             \* sent_spans
            out = <<>>,           \* datagrams sent: <<first, last>> (1-based, inclusive)
            bs = 0;
  {
   loop: while (sent < Len(sz)) {
           bs := IF per < Len(sz) - sent THEN per ELSE Len(sz) - sent;
           if (Size(sz, sent + 1, sent + bs) >= Limit) {
             if (bs <= 1) { sent := sent + 1 }
             else { per := per \div 2 }
           } else {
             out := Append(out, <<sent + 1, sent + bs>>);
             sent := sent + bs
           }
         }
  }
} *)
\* BEGIN TRANSLATION
VARIABLES pc, sz, per, sent, out, bs

vars == << pc, sz, per, sent, out, bs >>

Init == (* Global variables *)
        /\ sz \in UNION {[1..n -> Classes] : n \in 0..MaxLen}
        /\ per = Len(sz)
        /\ sent = 0
        /\ out = <<>>
        /\ bs = 0
        /\ pc = "loop"

loop == /\ pc = "loop"
        /\ IF sent < Len(sz)
              THEN /\ bs' = (IF per < Len(sz) - sent THEN per ELSE Len(sz) - sent)
                   /\ IF Size(sz, sent + 1, sent + bs') >= Limit
                         THEN /\ IF bs' <= 1
                                    THEN /\ sent' = sent + 1
                                         /\ per' = per
                                    ELSE /\ per' = (per \div 2)
                                         /\ sent' = sent
                              /\ out' = out
                         ELSE /\ out' = Append(out, <<sent + 1, sent + bs'>>)
                              /\ sent' = sent + bs'
                              /\ per' = per
                   /\ pc' = "loop"
              ELSE /\ pc' = "Done"
                   /\ UNCHANGED << per, sent, out, bs >>
        /\ sz' = sz

(* Allow infinite stuttering to prevent deadlock on termination. *)
Terminating == pc = "Done" /\ UNCHANGED vars

Next == loop
           \/ Terminating

Spec == Init /\ [][Next]_vars

Termination == <>(pc = "Done")

\* END TRANSLATION

FairSpec == Spec /\ WF_vars(loop)

----------------------------------------------------------------------------
Flat == FlattenSeq([k \in DOMAIN out |-> [x \in 1..(out[k][2] - out[k][1] + 1) |-> out[k][1] + x - 1]])
Fitting == SelectSeq([i \in DOMAIN sz |-> i], LAMBDA i : Fits(sz, i))

\* every datagram below the limit
Small == \A k \in DOMAIN out : Size(sz, out[k][1], out[k][2]) < Limit
\* nothing sent twice, nothing out of order, only spans that fit alone
Sound == /\ \A k \in DOMAIN Flat : k > 1 => Flat[k - 1] < Flat[k]
         /\ \A k \in DOMAIN Flat : Fits(sz, Flat[k])
\* at the end: exactly the spans that fit alone
Complete == pc = "Done" => Flat = Fitting
\* the loop variant: pairs (spans left, batch size) decrease lexicographically
Variant == 2 * (Len(sz) - sent) * (MaxLen + 1) + per
Decreases == [][pc = "loop" /\ sent < Len(sz) => Variant' < Variant]_vars

\* cases for the conformance harness: one line per input vector with what must come out
Emit == pc = "Done" => PrintT(<<"CASE", ToJson([sz |-> sz, kept |-> Fitting, datagrams |-> out])>>)
=============================================================================
