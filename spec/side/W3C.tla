-------------------------------- MODULE W3C --------------------------------
(***************************************************************************)
(* What SpanContext::decode_w3c_traceparent / encode_w3c_traceparent and   *)
(* the text forms of TraceId / SpanId must do (C12), as an executable      *)
(* specification over sequences of characters.                             *)
(*                                                                         *)
(* A text is the sequence of its dash-separated fields, each a sequence of *)
(* one-character strings.  Decode(fields) is                               *)
(*    [k |-> "none"]                      the text must be rejected         *)
(*    [k |-> "some", trace, span, smp]    it must decode to these values    *)
(*    [k |-> "free"]                      the statement does not decide     *)
(*                                        (a leading "+", which Rust's      *)
(*                                        integer parser accepts)           *)
(* Values are fixed-width sequences of lower-case hex digits.              *)
(***************************************************************************)
EXTENDS Naturals, Sequences, FiniteSets, TLC, SequencesExt

Lower == <<"0", "1", "2", "3", "4", "5", "6", "7", "8", "9", "a", "b", "c", "d", "e", "f">>
Upper == <<"0", "1", "2", "3", "4", "5", "6", "7", "8", "9", "A", "B", "C", "D", "E", "F">>
IsHex(c) == \E i \in 1..16 : Lower[i] = c \/ Upper[i] = c
Val(c) == (CHOOSE i \in 1..16 : Lower[i] = c \/ Upper[i] = c) - 1
ToLower(c) == Lower[Val(c) + 1]

RECURSIVE Strip(_)
Strip(s) == IF s # <<>> /\ Head(s) = "0" THEN Strip(Tail(s)) ELSE s     \* leading zeros
Pad(s, w) == [i \in 1..w |-> IF i <= w - Len(s) THEN "0" ELSE ToLower(s[i - (w - Len(s))])]

\* a hexadecimal number that fits w digits: k = "ok" with its value as w lower-case digits;
\* otherwise "bad"; "free" when the statement leaves it open
Num(s, w) ==
  IF s = <<>> THEN [k |-> "bad"]
  ELSE IF Head(s) = "+" THEN [k |-> "free"]
  ELSE IF \E i \in DOMAIN s : ~IsHex(s[i]) THEN [k |-> "bad"]
  ELSE IF Len(Strip(s)) > w THEN [k |-> "bad"]
  ELSE [k |-> "ok", v |-> Pad(Strip(s), w)]

Decode(fs) ==
  IF Len(fs) # 4 \/ fs[1] # <<"0", "0">> THEN [k |-> "none"]
  ELSE LET t == Num(fs[2], 32) s == Num(fs[3], 16) f == Num(fs[4], 2) IN
       IF t.k = "bad" \/ s.k = "bad" \/ f.k = "bad" THEN [k |-> "none"]
       ELSE IF t.k = "free" \/ s.k = "free" \/ f.k = "free" THEN [k |-> "free"]
       ELSE [k |-> "some", trace |-> t.v, span |-> s.v, smp |-> (Val(f.v[2]) % 2 = 1)]

\* the fixed 55-character form of an encoded context
Encoded(trace, span, smp) == <<"0", "0", "-">> \o trace \o <<"-">> \o span \o <<"-", "0", IF smp THEN "1" ELSE "0">>

----------------------------------------------------------------------------
(* the classes of input the conformance harness concretises (MC_W3C)       *)
VerClasses == {"00", "01", "0", "000", "empty", "ff", "wide"}
NumClasses == {"exact", "upper", "allf", "zero", "short", "padded", "over", "empty", "nonhex", "nonascii", "plus", "space"}
FlagClasses == {"00", "01", "02", "03", "ff", "0F", "short", "padded", "over", "empty", "nonhex", "nonascii", "plus"}
\* what the classes must decode to (cross-checks the harness's concretisation)
NumKind(c) == IF c \in {"over", "empty", "nonhex", "nonascii", "space"} THEN "bad" ELSE IF c = "plus" THEN "free" ELSE "ok"
FlagKind(c) == IF c \in {"over", "empty", "nonhex", "nonascii"} THEN "bad" ELSE IF c = "plus" THEN "free" ELSE "ok"
Expect(n, v, t, s, f) ==
  IF n # 4 \/ v # "00" THEN "none"
  ELSE IF NumKind(t) = "bad" \/ NumKind(s) = "bad" \/ FlagKind(f) = "bad" THEN "none"
  ELSE IF NumKind(t) = "free" \/ NumKind(s) = "free" \/ FlagKind(f) = "free" THEN "free"
  ELSE "some"
=============================================================================
