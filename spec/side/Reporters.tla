------------------------------ MODULE Reporters ------------------------------
(***************************************************************************)
(* What the bundled reporters must transmit for a batch of records (C19).  *)
(* Identifiers are strings of lower-case hex digits, numbers are sequences *)
(* of decimal digits (most significant first), so that no arithmetic       *)
(* beyond TLC's integers is needed:                                        *)
(*   Jaeger      trace id = high \o low (two's-complement halves), times   *)
(*               in microseconds (three digits dropped), tags = properties *)
(*               in order, one log per event: ("name", event name)         *)
(*               followed by the event's properties                        *)
(*   Datadog     64-bit trace id = the low half, meta = last value per key,*)
(*               no events, times in nanoseconds                           *)
(*   OpenTelemetry  ids unchanged, end = start + duration, attributes and  *)
(*               events in order                                           *)
(* Every record exactly once, in order.                                    *)
(***************************************************************************)
EXTENDS Naturals, Sequences, FiniteSets, TLC, SequencesExt

\* ns -> us: drop three digits
Div1000(d) == IF Len(d) <= 3 THEN <<0>> ELSE SubSeq(d, 1, Len(d) - 3)

\* decimal addition of digit sequences
RECURSIVE AddR(_, _, _)
AddR(x, y, c) ==      \* x, y least significant first
  IF x = <<>> /\ y = <<>> THEN IF c = 0 THEN <<>> ELSE <<c>>
  ELSE LET a == IF x = <<>> THEN 0 ELSE Head(x)
           b == IF y = <<>> THEN 0 ELSE Head(y)
           s == a + b + c IN
       <<s % 10>> \o AddR(IF x = <<>> THEN <<>> ELSE Tail(x), IF y = <<>> THEN <<>> ELSE Tail(y), s \div 10)
Add(x, y) == Reverse(AddR(Reverse(x), Reverse(y), 0))

Pairs(ps) == [i \in DOMAIN ps |-> <<ps[i][1], ps[i][2]>>]
\* last value per key, as a set of pairs
LastWins(ps) == {<<ps[i][1], ps[i][2]>> : i \in {j \in DOMAIN ps : \A k \in DOMAIN ps : k > j => ps[k][1] # ps[j][1]}}

JaegerSpanBad(r, o) ==
  IF o.hi \o o.lo # r.trace THEN "trace-id"
  ELSE IF o.span # r.span THEN "span-id"
  ELSE IF o.parent # r.parent THEN "parent-id"
  ELSE IF o.name # r.name THEN "name"
  ELSE IF o.start # Div1000(r.begin) THEN "start-time"
  ELSE IF o.dur # Div1000(r.dur) THEN "duration"
  ELSE IF [i \in DOMAIN o.tags |-> <<o.tags[i][1], o.tags[i][2]>>] # Pairs(r.props) THEN "tags"
  ELSE IF \E i \in DOMAIN o.tags : o.tags[i][3] # 0 THEN "tag-type"
  ELSE IF Len(o.logs) # Len(r.events) THEN "log-count"
  ELSE IF \E i \in DOMAIN o.logs :
            \/ o.logs[i].ts # Div1000(r.events[i].ts)
            \/ [j \in DOMAIN o.logs[i].fields |-> <<o.logs[i].fields[j][1], o.logs[i].fields[j][2]>>]
                 # <<<<"name", r.events[i].name>>>> \o Pairs(r.events[i].props) THEN "logs"
  ELSE "ok"

DatadogSpanBad(r, o) ==
  IF o.trace # r.lo THEN "trace-id"
  ELSE IF o.span # r.span THEN "span-id"
  ELSE IF o.parent # r.parent THEN "parent-id"
  ELSE IF o.name # r.name THEN "name"
  ELSE IF o.start # r.begin THEN "start-time"
  ELSE IF o.dur # r.dur THEN "duration"
  ELSE IF {<<o.meta[i][1], o.meta[i][2]>> : i \in DOMAIN o.meta} # LastWins(r.props) THEN "meta"
  ELSE IF Len(o.meta) # Cardinality(LastWins(r.props)) THEN "meta-duplicates"
  ELSE "ok"

OtelSpanBad(r, o) ==
  IF o.trace # r.trace THEN "trace-id"
  ELSE IF o.span # r.span THEN "span-id"
  ELSE IF o.parent # r.parent THEN "parent-id"
  ELSE IF o.name # r.name THEN "name"
  ELSE IF o.start # r.begin THEN "start-time"
  ELSE IF o["end"] # Add(r.begin, r.dur) THEN "end-time"
  ELSE IF [i \in DOMAIN o.attrs |-> <<o.attrs[i][1], o.attrs[i][2]>>] # Pairs(r.props) THEN "attributes"
  ELSE IF Len(o.events) # Len(r.events) THEN "event-count"
  ELSE IF \E i \in DOMAIN o.events :
            \/ o.events[i].name # r.events[i].name
            \/ o.events[i].ts # r.events[i].ts
            \/ [j \in DOMAIN o.events[i].attrs |-> <<o.events[i].attrs[j][1], o.events[i].attrs[j][2]>>] # Pairs(r.events[i].props) THEN "events"
  ELSE "ok"

\* one observation: input records `in`, decoded output `out.spans`
BatchBad(kind, in, out) ==
  IF Len(out.spans) # Len(in) THEN "span-count"
  ELSE LET bad(i) == CASE kind = "jaeger" -> JaegerSpanBad(in[i], out.spans[i])
                       [] kind = "datadog" -> DatadogSpanBad(in[i], out.spans[i])
                       [] OTHER -> OtelSpanBad(in[i], out.spans[i])
           B == {i \in DOMAIN in : bad(i) # "ok"} IN
       IF B = {} THEN "ok" ELSE bad(CHOOSE i \in B : \A j \in B : i <= j)

----------------------------------------------------------------------------
(* record classes for the conformance harness (MC_Reporters) *)
IdPat == {"zero", "one", "7f", "80", "ff", "mix"}
\* "numeric": text that looks like a number or a boolean ("007", "1e3", "true", ...) and must stay text
StrClass == {"ascii", "empty", "utf8", "long", "quote", "numeric"}
DurClass == {"zero", "sub", "ms", "big"}
=============================================================================
