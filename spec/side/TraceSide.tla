------------------------------ MODULE TraceSide ------------------------------
(***************************************************************************)
(* Validation of what the side harness observed on the real code against   *)
(* W3C.tla (C12), Reporters.tla (C19) and the property conjuncts of        *)
(* Jaeger.tla (C20).  One TLC state per observation; every failed check is *)
(* printed as a VIOL line; the postcondition reports how much was consumed.*)
(***************************************************************************)
EXTENDS Naturals, Sequences, FiniteSets, TLC, Json, IOUtils, SequencesExt
W == INSTANCE W3C
R == INSTANCE Reporters

Rec == ndJsonDeserialize(IOEnv.TRACE)
VARIABLE i

Chars(s) == s   \* already sequences of one-character strings

\* ---- C20: the property, on real sizes
Limit == 8000
JaegerBad(o) ==
  LET flat == FlattenSeq([k \in DOMAIN o.datagrams |-> o.datagrams[k].idx])
      fit == SelectSeq([k \in DOMAIN o.sizes |-> k], LAMBDA k : o.sizes[k] < Limit) IN
  IF o.hung THEN "does-not-terminate"
  ELSE IF o.malformed # "" THEN "malformed-datagram"
  ELSE IF \E k \in DOMAIN o.datagrams : o.datagrams[k].len >= Limit THEN "datagram-too-large"
  ELSE IF \E k \in DOMAIN flat : k > 1 /\ flat[k - 1] >= flat[k] THEN "span-repeated-or-out-of-order"
  ELSE IF \E k \in DOMAIN flat : o.sizes[flat[k]] >= Limit THEN "oversize-span-sent"
  ELSE IF flat # fit THEN "span-missing"
  ELSE "ok"

\* ---- C12
DecodeBad(o) ==
  LET want == W!Decode(o.fields) IN
  IF o.out.panic THEN "panic"
  ELSE IF want.k = "free" THEN "ok"
  ELSE IF want.k = "none" THEN IF o.out.some THEN "accepted-malformed-text" ELSE "ok"
  ELSE IF ~o.out.some THEN "rejected-valid-text"
  ELSE IF o.out.trace # want.trace \/ o.out.span # want.span \/ o.out.smp # want.smp THEN "wrong-value"
  ELSE "ok"
\* the class the harness concretised must be what the specification says about that class
ClassBad(o) == LET want == W!Decode(o.fields) IN
               IF o.cls.want # "skip" /\ want.k # o.cls.want THEN "harness-concretisation" ELSE "ok"

RECURSIVE Str(_)
Str(cs) == IF cs = <<>> THEN "" ELSE Head(cs) \o Str(Tail(cs))
IsLowerHex(cs) == \A k \in DOMAIN cs : \E j \in 1..16 : W!Lower[j] = cs[k]
RoundBad(o) ==
  LET e == o.enc IN
  IF o.enclen # 55 \/ Len(e) # 55 THEN "encoded-length"
  ELSE IF SubSeq(e, 1, 3) # <<"0", "0", "-">> \/ e[36] # "-" \/ e[53] # "-" THEN "encoded-shape"
  ELSE IF ~IsLowerHex(SubSeq(e, 4, 35)) \/ ~IsLowerHex(SubSeq(e, 37, 52)) \/ ~IsLowerHex(SubSeq(e, 54, 55)) THEN "encoded-not-lower-hex"
  ELSE IF Str(SubSeq(e, 4, 35)) # o.trace \/ Str(SubSeq(e, 37, 52)) # o.span THEN "encoded-value"
  ELSE IF ~o.dec.some THEN "round-trip-rejected"
  ELSE IF o.dec.trace # o.trace \/ o.dec.span # o.span \/ o.dec.smp # o.smp THEN "round-trip-value"
  ELSE IF o.disp_t # o.trace \/ o.disp_s # o.span THEN "display"
  ELSE IF o.back_t # o.trace \/ o.back_s # o.span THEN "from-str"
  ELSE IF o.ser_t # "\"" \o o.trace \o "\"" \/ o.ser_s # "\"" \o o.span \o "\"" THEN "serde-serialize"
  ELSE IF o.de_t # o.trace \/ o.de_s # o.span THEN "serde-deserialize"
  ELSE IF "mp_ok" \in DOMAIN o /\ ~o.mp_ok THEN "serde-binary-format"
  ELSE "ok"

\* ---- C19
ReportBad(o) ==
  IF o.error # "" THEN "malformed-output"
  ELSE IF o.kind = "datadog" /\ Len(o["in"]) > 0 /\ ~o.out.shape_ok THEN "not-a-trace-array"
  ELSE R!BatchBad(o.kind, o["in"], o.out)

\* ---- C15
M == INSTANCE Macro
MacroLog(l) == [k \in DOMAIN l |-> <<l[k][1], l[k][2]>>]
OutKind(o, want) ==
  CASE want = "panic" -> o.k = "panic"
    [] OTHER -> o.k = "ret"
MacroHarnessBad(o) ==      \* the generated plain function must mean what Macro.tla says the body means
  IF MacroLog(o.plain.log) # o["case"].want.log \/ ~OutKind(o.plain.out, o["case"].want.out) THEN "generated-body" ELSE "ok"
MacroBad(o) ==
  LET c == o["case"]
      own == SelectSeq(o.recs, LAMBDA r : r.name = o.want_name)
      inner == SelectSeq(o.recs, LAMBDA r : r.name = "inner")
      after == SelectSeq(o.recs, LAMBDA r : r.name = "after")
      other == SelectSeq(o.recs, LAMBDA r : r.name # o.want_name /\ r.name # "inner" /\ r.name # "after") IN
  IF o.traced.log # o.plain.log THEN "side-effects-differ"
  ELSE IF o.traced.out # o.plain.out THEN "outcome-differs"
  ELSE IF o.noparent.log # o.plain.log \/ o.noparent.out # o.plain.out THEN "outcome-differs-without-local-parent"
  ELSE IF o.noparent.recs # 0 THEN "recorded-without-local-parent"
  ELSE IF Len(own) # c.spans.own
       THEN IF c.kind \in {"atrait", "atrait_eop"} /\ c.naming \in {"default", "default_f"} /\ Len(other) = c.spans.own THEN "span-name-async-trait" ELSE "span-count-or-name"
  ELSE IF \E k \in DOMAIN own : own[k].parent # "root" THEN "span-parent"
  ELSE IF \E k \in DOMAIN own : [j \in DOMAIN own[k].props |-> <<own[k].props[j][1], own[k].props[j][2]>>]
                                   # [j \in DOMAIN o.want_props |-> <<o.want_props[j][1], o.want_props[j][2]>>] THEN "span-properties"
  ELSE IF Len(inner) # c.spans.inner \/ \E k \in DOMAIN inner : inner[k].parent # o.want_name THEN "inner-span"
  ELSE IF other # <<>> THEN "extra-span"
  \* an async-trait method called under one local parent (rootA), its future polled under another
  \* the caller's local context is what it was once the annotated call is over, however it ended
  ELSE IF Len(after) # 1 \/ after[1].parent # "root" THEN "caller-context-not-restored"
  ELSE IF c.kind = "atrait" /\ \E k \in DOMAIN o.split : o.split[k].name \notin {"inner"} /\ o.split[k].parent # "rootA" THEN "span-parent-not-the-callers"
  ELSE IF c.kind = "atrait" /\ Len(SelectSeq(o.split, LAMBDA r : r.name # "inner")) # c.spans.own THEN "span-lost-when-polled-elsewhere"
  ELSE "ok"

Check(o) ==
  CASE o.ev = "macro" -> IF MacroHarnessBad(o) # "ok" THEN <<"HARNESS", MacroHarnessBad(o)>> ELSE <<"C15", MacroBad(o)>>
    [] o.ev = "jaeger" -> <<"C20", JaegerBad(o)>>
    [] o.ev = "decode" -> IF ClassBad(o) # "ok" THEN <<"HARNESS", ClassBad(o)>> ELSE <<"C12", DecodeBad(o)>>
    [] o.ev = "roundtrip" -> <<"C12", RoundBad(o)>>
    [] o.ev = "report" -> <<"C19", ReportBad(o)>>
    [] OTHER -> <<"HARNESS", "unknown-observation">>

Init == i = 1
Next == /\ i <= Len(Rec)
        /\ LET c == Check(Rec[i]) IN
           c[2] # "ok" => PrintT(<<"VIOL", ToJson([id |-> Rec[i].id, line |-> i, p |-> c[1], w |-> c[2]])>>)
        /\ i' = i + 1
Accepted == PrintT(<<"CONSUMED", TLCGet("stats").diameter - 1>>)
=============================================================================
