INIT Init
NEXT Next
