INIT Init
NEXT Next
