------------------------------- MODULE MC_W3C -------------------------------
(* Enumerates the product of input classes of W3C.tla and prints one CASE per element. *)
EXTENDS W3C, Json
Full == {[n |-> 4, v |-> v, t |-> t, s |-> s, f |-> f, want |-> Expect(4, v, t, s, f)] : v \in VerClasses, t \in NumClasses, s \in NumClasses, f \in FlagClasses}
Other == {[n |-> n, v |-> "00", t |-> t, s |-> "exact", f |-> "01", want |-> "none"] : n \in {1, 2, 3, 5, 6}, t \in {"exact", "empty", "short"}}
IdClasses == {"zero", "one", "allf", "top", "low", "mix"}
Round == {[t |-> t, s |-> s, smp |-> b] : t \in IdClasses, s \in IdClasses, b \in BOOLEAN}
ASSUME \A c \in Full \cup Other : PrintT(<<"CASE", ToJson(c)>>)
ASSUME \A c \in Round : PrintT(<<"ROUND", ToJson(c)>>)
VARIABLE x
Init == x = 0
Next == x' = x
=============================================================================
