CONSTANTS
  Limit = 80
  Base = 6
  Classes = {2, 24, 36, 72, 73, 90}
  MaxLen = 6
SPECIFICATION FairSpec
INVARIANTS Small Sound Complete
PROPERTIES Termination Decreases
CHECK_DEADLOCK FALSE
