---------------------------- MODULE MC_Reporters ----------------------------
(* Enumerates record classes and batch shapes and prints one CASE per batch. *)
EXTENDS Reporters, Json
\* all id patterns against each other, with and without attachments
Ids == {[tid |-> t, sid |-> s, pid |-> p, name |-> "ascii", val |-> "ascii", dur |-> "ms", props |-> 1, events |-> 1, dupkey |-> FALSE] :
          t \in IdPat, s \in IdPat, p \in IdPat}
\* all string and duration classes, property / event counts
Strs == {[tid |-> "mix", sid |-> "mix", pid |-> "80", name |-> n, val |-> v, dur |-> d, props |-> np, events |-> ne, dupkey |-> (np > 1 /\ dk)] :
          n \in StrClass, v \in StrClass, d \in DurClass, np \in {0, 2, 3}, ne \in {0, 1, 3}, dk \in BOOLEAN}
Singles == {<<r>> : r \in Ids \cup Strs}
Small == [tid |-> "mix", sid |-> "mix", pid |-> "mix", name |-> "ascii", val |-> "utf8", dur |-> "ms", props |-> 2, events |-> 1, dupkey |-> FALSE]
\* (513 and 1030: one more than, and not a multiple of, the batch sizes exporters like to cut at)
Many == {[i \in 1..n |-> Small] : n \in {0, 2, 7, 40, 200, 513, 1030}}
ASSUME \A c \in Singles \cup Many : PrintT(<<"CASE", ToJson([recs |-> c])>>)
VARIABLE x
Init == x = 0
Next == x' = x
=============================================================================
