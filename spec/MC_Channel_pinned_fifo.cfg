CONSTANTS
  Threads = {1, 2}
  Born = {1}
  K = 1
  Prog <- ProgQ
  Exits = {1}
  Flushers = 1
  FixRecv = TRUE
  FixExitOrder = TRUE
  FixFifo = FALSE
  None = None
SPECIFICATION Spec
CHECK_DEADLOCK FALSE
INVARIANTS Fifo
