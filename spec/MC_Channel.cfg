CONSTANTS
  Threads = {1, 2}
  Born = {1}
  K = 1
  Prog <- ProgQ
  Exits = {1}
  Flushers = 1
  FixRecv = TRUE
  FixExitOrder = TRUE
  FixFifo = TRUE
  None = None
SPECIFICATION Spec
INVARIANTS TypeOK RingBound Conservation Fifo NoDestroy ForcedKept RemovedOnlyDead ExitPrefix ByFlush
PROPERTIES CoarseSpec Delivered Settled FlushReturns Registers Forgotten
CHECK_DEADLOCK FALSE
