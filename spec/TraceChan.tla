----------------------------- MODULE TraceChan -----------------------------
(***************************************************************************)
(* Conformance of the real command channel with Channel.tla, evaluated on  *)
(* the hook events of steered runs (the "TraceImpl" of DESIGN.md 4.4).     *)
(*                                                                         *)
(* ChanStep folds one recorded event into the state of Channel.tla that    *)
(* the events determine - ring[t], pend[t], batch, dead and removed        *)
(* threads - and checks the enabling condition of the Channel action the   *)
(* event stands for.  A failed condition is appended to `drift`:           *)
(*   [w: which condition, d: detail, p: the property whose own clause it   *)
(*    is, or "" when it only says that the code no longer follows the      *)
(*    implementation-shaped model]                                         *)
(*                                                                         *)
(*   event                         Channel.tla action, condition checked    *)
(*   push t kind cids              Attempt(t), value branch: pend[t] empty  *)
(*                                 (a forced value must not overtake parked *)
(*                                 ones: C09), ring not full                *)
(*   push t replay | exit          Attempt / ExitStep, replay branch: pend  *)
(*                                 not empty; its HEAD moves to the ring    *)
(*   park t kind cids              Attempt, force on a full ring            *)
(*   refuse t kind cids            Attempt, send on a full ring; a finish   *)
(*                                 or cancel signal is never refused (C09)  *)
(*   exitdrop t                    ExitStep on a full ring                  *)
(*   ret t parked=n                Len(pend[t]) = n                         *)
(*   call / ret t op=exit          BeginExit ... ExitStep, last: t is exiting,*)
(*                                 then dead                                *)
(*   drain t                       Pop* until empty: batch \o ring[t]       *)
(*   rxremoved t                   Abandon / Repop removing the receiver:   *)
(*                                 t is dead and its ring is empty (C01:    *)
(*                                 nothing is destroyed with a receiver)    *)
(*   cycbegin                      CycleBegin: what is in a ring now must be *)
(*                                 in this sweep's batch (queue-not-swept)  *)
(*   process starts drops commits submits                                   *)
(*                                 Process: the batch is, kind by kind and  *)
(*                                 in order, exactly what was drained       *)
(* Runs whose pushes were not recorded (free-running rounds) are skipped.   *)
(***************************************************************************)
EXTENDS Naturals, Sequences, TLC

CONSTANT None

Get(f, x, d) == IF x \in DOMAIN f THEN f[x] ELSE d
Put(f, x, v) == [y \in DOMAIN f \cup {x} |-> IF y = x THEN v ELSE f[y]]
EmptyFn == [x \in {} |-> None]

ChanInit(k) == [K |-> k, ring |-> EmptyFn, pend |-> EmptyFn, batch |-> <<>>, dead |-> {}, exiting |-> {}, removed |-> {},
                n |-> 0, nb |-> 0, steered |-> FALSE, events |-> 0, drift |-> <<>>]

Drift(c, w, d, p) == [c EXCEPT !.drift = Append(@, [w |-> w, d |-> d, p |-> p])]
Forced(k) == k \in {"start", "commit", "drop"}
Signal(k) == k \in {"commit", "drop"}

OfKind(b, k) == SelectSeq(b, LAMBDA x : x.k = k)
Cids1(s) == [i \in DOMAIN s |-> s[i].cids[1]]
CidsAll(s) == [i \in DOMAIN s |-> s[i].cids]

ChanStep(c0, e) ==
  LET c == [c0 EXCEPT !.events = @ + 1] IN
  CASE e.ev = "spawn" -> [c EXCEPT !.ring = Put(@, e.t, <<>>), !.pend = Put(@, e.t, <<>>)]
    [] e.ev = "push" /\ e.t # 0 ->
         LET t == e.t r == Get(c.ring, t, <<>>) p == Get(c.pend, t, <<>>)
             c1 == [c EXCEPT !.steered = TRUE, !.n = @ + 1]
             c2 == IF Len(r) >= c.K THEN Drift(c1, "push-into-full-ring", <<t, e.kind>>, "") ELSE c1 IN
         IF e.kind \in {"replay", "exit"}
         THEN IF p = <<>> THEN Drift(c2, "replay-of-nothing", <<t, e.kind>>, "")
              ELSE [c2 EXCEPT !.ring = Put(@, t, Append(r, [Head(p) EXCEPT !.n = c.n])), !.pend = Put(@, t, Tail(p))]
         ELSE LET cmd == [t |-> t, n |-> c.n, k |-> e.kind, cids |-> e.cids]
                  c3 == IF p # <<>> THEN Drift(c2, "value-overtook-parked-commands", <<t, e.kind, Len(p)>>, IF Forced(e.kind) THEN "C09" ELSE "") ELSE c2 IN
              [c3 EXCEPT !.ring = Put(@, t, Append(r, cmd))]
    [] e.ev = "park" /\ e.t # 0 ->
         LET t == e.t r == Get(c.ring, t, <<>>) p == Get(c.pend, t, <<>>)
             cmd == [t |-> t, n |-> c.n, k |-> e.kind, cids |-> e.cids]
             c1 == [c EXCEPT !.steered = TRUE, !.n = @ + 1, !.pend = Put(@, t, Append(p, cmd))] IN
         IF Len(r) < c.K /\ p = <<>> THEN Drift(c1, "parked-although-there-was-room", <<t, e.kind>>, "") ELSE c1
    [] e.ev = "refuse" /\ e.t # 0 ->
         LET t == e.t r == Get(c.ring, t, <<>>)
             c1 == [c EXCEPT !.steered = TRUE]
             c2 == IF Len(r) < c.K THEN Drift(c1, "refused-although-there-was-room", <<t, e.kind>>, "") ELSE c1 IN
         IF Signal(e.kind) THEN Drift(c2, "finish-or-cancel-signal-refused", <<t, e.kind, e.cids>>, "C09") ELSE c2
    [] e.ev = "exitdrop" /\ e.t # 0 -> [c EXCEPT !.pend = Put(@, e.t, <<>>)]
    [] e.ev = "ret" /\ "parked" \in DOMAIN e /\ "t" \in DOMAIN e /\ ~("tls" \in DOMAIN e) ->
         LET t == e.t p == Get(c.pend, t, <<>>)
             c1 == IF c.steered /\ t \in DOMAIN c.pend /\ Len(p) # e.parked /\ e.op # "exit"
                   THEN Drift(c, "overflow-list-length", <<t, e.op, "model", Len(p), "code", e.parked>>, "") ELSE c IN
         IF e.op = "exit" THEN [c1 EXCEPT !.dead = @ \cup {t}] ELSE c1
    \* the producer half is released inside the exit call, some time before the harness can log its return: from
    \* the call on the collector may see the channel abandoned (tst = "exiting" / "dead" in Channel.tla)
    [] e.ev = "call" /\ "op" \in DOMAIN e /\ e.op = "exit" /\ "t" \in DOMAIN e -> [c EXCEPT !.exiting = @ \cup {e.t}]
    [] e.ev = "drain" /\ e.t # 0 ->
         LET t == e.t r == Get(c.ring, t, <<>>)
             c1 == IF t \in c.removed THEN Drift(c, "drained-a-removed-receiver", t, "") ELSE c IN
         [c1 EXCEPT !.batch = @ \o r, !.ring = Put(@, t, <<>>)]
    [] e.ev = "rxremoved" /\ e.t # 0 ->
         LET t == e.t r == Get(c.ring, t, <<>>)
             c1 == IF t \notin c.dead \cup c.exiting THEN Drift(c, "receiver-of-a-live-thread-removed", t, "") ELSE c
             c2 == IF r # <<>> THEN Drift(c1, "commands-destroyed-with-their-receiver", <<t, [i \in DOMAIN r |-> r[i].k]>>, "C01") ELSE c1 IN
         [c2 EXCEPT !.removed = @ \cup {t}, !.ring = Put(@, t, <<>>)]
    \* CycleBegin: commands numbered below nb were in a ring when this sweep began
    [] e.ev = "cycbegin" -> [c EXCEPT !.nb = c.n]
    [] e.ev = "process" ->
         IF ~c.steered THEN [c EXCEPT !.batch = <<>>]
         ELSE LET b == c.batch
                  \* Channel.tla: a sweep pops every registered ring until it is empty - whatever was queued when the
                  \* sweep began is in its batch
                  left == {t \in DOMAIN c.ring : t \notin c.removed /\ \E i \in DOMAIN c.ring[t] : c.ring[t][i].n < c.nb}
                  c0a == IF left # {} THEN Drift(c, "queue-not-swept", left, "") ELSE c
                  ok == /\ Cids1(OfKind(b, "start")) = e.starts
                        /\ Cids1(OfKind(b, "drop")) = e.drops
                        /\ Cids1(OfKind(b, "commit")) = e.commits
                        /\ CidsAll(OfKind(b, "submit")) = e.submits
                  c1 == IF ok THEN c0a ELSE Drift(c0a, "batch-is-not-what-was-drained",
                                                <<"model", [i \in DOMAIN b |-> <<b[i].t, b[i].k, b[i].cids>>], "code", <<e.starts, e.drops, e.commits, e.submits>>>>, "") IN
              [c1 EXCEPT !.batch = <<>>]
    [] OTHER -> c

\* steered runs only: where no push was recorded nothing can be said (and nothing is)
ChanResult(c) == IF c.steered THEN c.drift ELSE <<>>
=============================================================================
