----------------------------- MODULE Fastrace -----------------------------
(***************************************************************************)
(* Implementation-shaped model of fastrace: per-thread span stacks (span   *)
(* lines with a parent cursor), collect tokens, the per-thread command     *)
(* rings with their overflow list, the receiver registry, and the global   *)
(* collector's cycle (drain receiver by receiver, abandoned check, batch   *)
(* processing start -> drop -> submit -> commit, stale spans, danglings).   *)
(*                                                                         *)
(* One action per critical section of the code:                            *)
(*   Op(t)      a public API call up to and including its first ring push  *)
(*   Push(t)    one further ring-push attempt of the call in progress      *)
(*              (Sender::send / force_send / drop: replay of a parked      *)
(*              command, or the value itself)                              *)
(*   Cyc/Flush  GlobalCollector::handle_commands is entered                *)
(*   Col        the collector's next step: drain one receiver (pop until   *)
(*              empty), or evaluate is_abandoned() for it; the step after  *)
(*              the last receiver processes the batch and reports          *)
(* The abstract state of Abs.tla is carried as ghost variable `a`; every   *)
(* action feeds it the interface events it stands for.  Behaviours are     *)
(* recorded in `hist` (hidden by VIEW) and printed for replay against the  *)
(* real code.                                                              *)
(*                                                                         *)
(* Boolean constants Fix* select the repaired behaviour of a defect; all   *)
(* FALSE is the pinned tree.                                               *)
(***************************************************************************)
EXTENDS Naturals, Sequences, FiniteSets, TLC, SequencesExt, Json

CONSTANTS
  Threads,        \* set of thread numbers
  Born,           \* threads alive (and registered, in increasing order) initially
  K,              \* ring capacity
  QCap, SCap,     \* local span queue / span stack capacities
  Cancelable, Enabled, Ready,
  Menu,           \* set of operation names TLC may choose from
  Prog,           \* fixed programs: thread -> Seq(step); <<>> everywhere = menu driven
  MaxOps, MaxSpans, MaxRoots, MaxTraces, MaxScopes, MaxLocal, MaxAtt, MaxLs, MaxCycles, MaxFlush,
  SmpChoices,     \* subset of BOOLEAN for roots
  CrossThread,    \* may a thread use span handles created by another thread?
  TrackCut,       \* feed ring pushes / drains to the ghost (needed for the cut signature)
  FixRecv, FixFifo, FixCancelDefault, FixEmptyToken, FixStackFull, FixForceStart, FixReentrant, FixInSpan, FixExitOrder, FixWithLine,
  AdapterKinds, InnerKinds, MaxFuts, MaxPolls, DistinctOps,
  Prefix,         \* TRUE: Prog is only how every behaviour begins; the menu takes over afterwards
  Mut,            \* "none", or the name of a deliberately wrong variant of one action (see Mutants below)
  None

Zero == 0
A == INSTANCE Abs WITH None <- None, Zero <- Zero

VARIABLES
  tst,      \* thread -> "unborn" | "starting" (blocked registering its receiver while the collector
            \*           holds the registry) | "live" | "dead"
  reg,      \* registry: sequence of threads whose receiver is registered
  ring,     \* thread -> Seq(command)
  pend,     \* thread -> overflow list (Vec: end = top)
  cur,      \* thread -> remaining sends of the call in progress: Seq([mode, cmd, stage])
  inop,     \* thread -> the return event under construction, or None
  stack,    \* thread -> Seq(span line)
  hs,       \* thread -> stack of open handles [k: "g"|"c"|"l", n, live] (what the caller holds)
  spans,    \* name -> thread-safe span [tok, cid, props, st]
  lsets,    \* name -> collected local spans
  pushed,   \* <<span, set>> pairs already attached (the same set under the same parent twice would
            \* legitimately be delivered twice: excluded from every menu, DESIGN.md 3.5)
  futs,     \* name -> adapter [h, kind, done, polls]: a span bound to a future / stream / sink (in_span), or enter_on_poll
  cph, ci, batch, cown,   \* collector: phase, receiver index, batch, owner (0 = background, t = flush by t)
  active,   \* collect id -> [colls, dang]
  nid,      \* thread -> names handed out so far (names are 100 * t + k: independent of the interleaving)
  nops, natt, ncyc, nfl, pc,
  quiet,    \* number of full cycles run after every thread finished (teardown)
  a,        \* ghost: Abs state
  hist      \* behaviour so far (for replay)

vars == <<tst, reg, ring, pend, cur, inop, stack, hs, spans, lsets, pushed, futs, cph, ci, batch, cown, active,
          nid, nops, natt, ncyc, nfl, pc, quiet, a, hist>>
\* `hist` is not part of a state's identity - except, when DistinctOps is set, the names of the calls
\* made: where most calls are no-ops (no reporter, feature off) different programs would otherwise
\* end in the same state and only one of them would be printed for replay
OpNames == [i \in DOMAIN hist |-> IF "op" \in DOMAIN hist[i]
                                  THEN <<hist[i].op, IF "h" \in DOMAIN hist[i] THEN hist[i].h ELSE 0,
                                         IF "evt" \in DOMAIN hist[i] THEN Len(hist[i].evt.props) ELSE 0,
                                         "re" \in DOMAIN hist[i] /\ hist[i].re>>
                                  ELSE <<hist[i].ev, 0, 0, FALSE>>]
view == <<tst, reg, ring, pend, cur, inop, stack, hs, spans, lsets, pushed, futs, cph, ci, batch, cown, active,
          nid, nops, natt, ncyc, nfl, pc, quiet, a, IF DistinctOps THEN OpNames ELSE <<>>>>

NS == 99    \* NOT_SAMPLED_COLLECT_ID

Cfg == [cancelable |-> Cancelable, enabled |-> Enabled, ready |-> Ready, queue |-> QCap, stack |-> SCap, foreign |-> {}, tolm |-> 0, tolw |-> 0]

Init ==
  /\ tst = [t \in Threads |-> IF t \in Born THEN "live" ELSE "unborn"]
  /\ reg = SetToSortSeq(Born, <)
  /\ ring = [t \in Threads |-> <<>>] /\ pend = [t \in Threads |-> <<>>]
  /\ cur = [t \in Threads |-> <<>>] /\ inop = [t \in Threads |-> None]
  /\ stack = [t \in Threads |-> <<>>] /\ hs = [t \in Threads |-> <<>>]
  /\ spans = A!EmptyFn /\ lsets = A!EmptyFn /\ futs = A!EmptyFn /\ pushed = {}
  /\ cph = "idle" /\ ci = 0 /\ batch = <<>> /\ cown = 0
  /\ active = A!EmptyFn
  /\ nid = [t \in Threads |-> 0] /\ nops = 0 /\ natt = 0 /\ ncyc = 0 /\ nfl = 0 /\ pc = [t \in Threads |-> 1]
  /\ quiet = 0
  /\ a = A!AbsInit(Cfg)
  /\ hist = <<>>

----------------------------------------------------------------------------
(* tokens and span lines (span.rs, local_span_line.rs, span_queue.rs) *)
(* Mutants.  Each name switches one action to a plausible wrong variant; the checks run the model  *)
(* with it and require TLC to find a violation of the property named - the standing evidence that  *)
(* the property's clauses can fail on this model (the model-level twin of the seeded code changes). *)
(*   skip-second-copy   C02  a multi-parent set is handed to a collector once, even when two of    *)
(*                           its parents are in that collector's trace                             *)
(*   mark-all-sampled   C05  the local parent's token marks every item sampled if any is           *)
(*   drain-danglings    C06  attachments parked for a span that is still open are dropped at the   *)
(*                           end of the cycle (default configuration)                              *)
(*   no-restore         C10  finishing a local span leaves the parent cursor on it                 *)
(*   ctx-last           C11  SpanContext::from_span reads the last token item, not the first       *)
(*   root-ignores-ready C16  Span::root does not ask whether a reporter is installed               *)
(*   force-blocks       C07  a forced command waits for room in a full queue instead of parking    *)
(*   span-before-inner  C13  an adapter dropped while pending finishes its span before its inner   *)
(*                           future (and the span that future holds) is torn down                   *)
(*   push-once          C17  a captured set can be pushed to one parent only; later pushes are lost *)
M_(x) == Mut = x
Sampled(tok) == SelectSeq(tok, LAMBDA it : it.smp)
AnySmp(tok) == \E i \in DOMAIN tok : tok[i].smp
Issue(h) == [i \in DOMAIN spans[h].tok |-> [spans[h].tok[i] EXCEPT !.par = h]]
Top(t) == stack[t][Len(stack[t])]
SetTop(t, l) == [stack EXCEPT ![t][Len(stack[t])] = l]
\* SpanLine::current_collect_token
CurTok(l) == [i \in DOMAIN l.tok |-> [l.tok[i] EXCEPT !.par = IF l.nxt # 0 THEN l.nxt ELSE @,
                                                     !.smp = IF M_("mark-all-sampled") THEN \E j \in DOMAIN l.tok : l.tok[j].smp ELSE @]]
LiveSpan(h) == h \in DOMAIN spans /\ spans[h].st = "live"
Usable(h) == h \in DOMAIN spans /\ spans[h].st \in {"live", "noop"}
KV(n) == <<n, n>>
New(t) == 100 * t + nid[t] + 1
Bump(t) == nid' = [nid EXCEPT ![t] = @ + 1]

Send(cmd) == [mode |-> "send", cmd |-> cmd, stage |-> "replay"]
Force(cmd) == [mode |-> "force", cmd |-> cmd, stage |-> "replay"]
Submit(q, tok) == [k |-> "submit", q |-> q, tok |-> tok]
CmdCids(c) == IF c.k = "submit" THEN [i \in DOMAIN c.tok |-> c.tok[i].cid] ELSE <<c.c>>

----------------------------------------------------------------------------
(* one ring-push attempt (util/spsc.rs) of the call whose remaining sends  *)
(* are cs, on ring r with overflow list p.  Returns                        *)
(* <<ring', overflow', remaining sends, refused?, pushed command or None>> *)
Attempt(cs, r, p) ==
  LET c == Head(cs) full == Len(r) >= K IN
  IF c.mode = "exit"
  THEN \* Sender::drop: parked commands front to back, dropped when the ring is full
       IF full THEN (IF FixExitOrder THEN <<r, <<>>, <<>>, FALSE, None>> ELSE <<r, Tail(p), IF Len(p) = 1 THEN <<>> ELSE cs, FALSE, None>>)
       ELSE <<Append(r, Head(p)), Tail(p), IF Len(p) = 1 THEN <<>> ELSE cs, FALSE, Head(p)>>
  ELSE IF c.stage = "replay" /\ p # <<>>
  THEN LET x == IF FixFifo THEN Head(p) ELSE Last(p)
           rest == IF FixFifo THEN Tail(p) ELSE Front(p) IN
       IF ~full THEN <<Append(r, x), rest, cs, FALSE, x>>
       ELSE IF c.mode = "send" THEN <<r, p, Tail(cs), TRUE, None>>
       ELSE IF FixFifo THEN <<r, Append(p, c.cmd), Tail(cs), FALSE, None>>
       ELSE <<r, p, <<[c EXCEPT !.stage = "value"]>> \o Tail(cs), FALSE, None>>
  ELSE IF ~full THEN <<Append(r, c.cmd), p, Tail(cs), FALSE, c.cmd>>
       ELSE IF c.mode = "send" THEN <<r, p, Tail(cs), TRUE, None>>
       ELSE <<r, Append(p, c.cmd), Tail(cs), FALSE, None>>

GhostPush(g, t, cmd) == IF TrackCut /\ cmd # None THEN A!AbsStep(g, [ev |-> "push", t |-> t, cids |-> CmdCids(cmd)]) ELSE g

\* perform one attempt of the sends cs of thread t's call (return event ret, ghost g); the call
\* returns when nothing is left
Advance(t, cs, g, ret) ==
  IF cs = <<>>
  THEN /\ a' = A!AbsStep(g, [ret EXCEPT !.parked = Len(pend[t])])
       /\ tst' = IF ret.op = "exit" THEN [tst EXCEPT ![t] = "dead"] ELSE tst
       /\ inop' = [inop EXCEPT ![t] = None]
       /\ cur' = [cur EXCEPT ![t] = <<>>]
       /\ UNCHANGED <<ring, pend>>
  ELSE LET at == Attempt(cs, ring[t], pend[t])
           ret0 == IF at[4] THEN [ret EXCEPT !.refused = TRUE] ELSE ret
           \* exit: a parked command that meets a full ring is dropped
           ret1 == IF Head(cs).mode = "exit" /\ at[5] = None THEN [ret0 EXCEPT !.dropped = TRUE] ELSE ret0
           g1 == GhostPush(g, t, at[5])
           done == at[3] = <<>> IN
       /\ ring' = [ring EXCEPT ![t] = at[1]]
       /\ pend' = [pend EXCEPT ![t] = at[2]]
       /\ cur' = [cur EXCEPT ![t] = at[3]]
       /\ inop' = [inop EXCEPT ![t] = IF done THEN None ELSE ret1]
       /\ a' = IF done THEN A!AbsStep(g1, [ret1 EXCEPT !.parked = Len(at[2])]) ELSE g1
       /\ tst' = IF done /\ ret1.op = "exit" THEN [tst EXCEPT ![t] = "dead"] ELSE tst

----------------------------------------------------------------------------
(* API calls.  Each definition gives the call's effect on the thread-local *)
(* and span state, the commands it sends, and its call / return events.    *)

Budget == nops < MaxOps
CanStart(t) == tst[t] = "live" /\ cur[t] = <<>> /\ inop[t] = None /\ (cph = "idle" \/ cown # t)
Mine(t, h) == CrossThread \/ spans[h].own = t
NSpans == Cardinality({h \in DOMAIN spans : spans[h].st # "noop"})
NRoots == Cardinality({h \in DOMAIN spans : spans[h].cid # 0})
AttOk == natt < MaxAtt
NLocal(t) == Cardinality({i \in DOMAIN hs[t] : hs[t][i].k = "l"})
NScopes(t) == Cardinality({i \in DOMAIN hs[t] : hs[t][i].k \in {"g", "c"}})
TopH(t) == hs[t][Len(hs[t])]

\* Begin a call: cmds = the sends it will perform, call / ret = its events.
\* The first push attempt, if any, is part of this step.
Begin(t, cmds, call, ret) ==
  /\ hist' = Append(hist, call)
  /\ Advance(t, cmds, A!AbsStep(a, call), ret @@ call)    \* the return event repeats the call's arguments

Ev(t, op) == [ev |-> "call", t |-> t, op |-> op]
Rt(t, op) == [ev |-> "ret", t |-> t, op |-> op, refused |-> FALSE, dropped |-> FALSE, parked |-> 0]

Root(t, tr, smp) ==
  LET h == New(t)
      rec == Enabled /\ (Ready \/ M_("root-ignores-ready"))
      cid == IF smp THEN h ELSE NS          \* collect ids only need to be unique: the root's name serves
      start == [k |-> "start", c |-> cid] IN
  /\ NRoots < MaxRoots /\ NSpans < MaxSpans
  /\ spans' = A!Put(spans, h, IF rec THEN [tok |-> <<[tr |-> tr, par |-> 1000 + tr, cid |-> cid, smp |-> smp]>>, cid |-> cid, props |-> <<>>, st |-> "live", own |-> t]
                              ELSE [tok |-> <<>>, cid |-> 0, props |-> <<>>, st |-> "noop", own |-> t])
  /\ Bump(t)
  /\ Begin(t, IF rec /\ smp THEN <<IF FixForceStart THEN Force(start) ELSE Send(start)>> ELSE <<>>,
           Ev(t, "root") @@ [h |-> h, tr |-> tr, smp |-> smp, rpar |-> 1000 + tr],
           Rt(t, "root") @@ (IF rec THEN [h |-> h, cid |-> cid, id |-> h] ELSE [h |-> h]))
  /\ UNCHANGED <<stack, hs, lsets, futs, pushed, natt>>

\* a root created from an extracted context: SpanContext::from_span(src) (src a span handle), or
\* SpanContext::current_local_parent() (src = 0); w3c: through encode / decode of a traceparent
RootCtx(t, src, w3c) ==
  LET h == New(t)
      tok == IF src = 0 THEN (IF stack[t] # <<>> /\ ~Top(t).lc THEN CurTok(Top(t)) ELSE <<>>)
             ELSE IF spans[src].st = "live" THEN Issue(src) ELSE <<>>
      some == tok # <<>>
      ctx == IF some THEN [some |-> TRUE, tr |-> tok[1].tr, id |-> tok[1].par, smp |-> tok[1].smp] ELSE [some |-> FALSE]
      rec == Enabled /\ Ready /\ some
      cid == IF rec /\ ctx.smp THEN h ELSE NS
      start == [k |-> "start", c |-> cid]
      boom == src = 0 /\ stack[t] # <<>> /\ ~Top(t).lc /\ tok = <<>> /\ ~FixEmptyToken IN
  /\ NRoots < MaxRoots /\ NSpans < MaxSpans
  \* without a context the caller creates nothing
  /\ spans' = IF rec THEN A!Put(spans, h, [tok |-> <<[tr |-> ctx.tr, par |-> ctx.id, cid |-> cid, smp |-> ctx.smp]>>, cid |-> cid, props |-> <<>>, st |-> "live", own |-> t])
               ELSE A!Put(spans, h, [tok |-> <<>>, cid |-> 0, props |-> <<>>, st |-> "noop", own |-> t])
  /\ Bump(t)
  /\ Begin(t, IF rec /\ ctx.smp THEN <<IF FixForceStart THEN Force(start) ELSE Send(start)>> ELSE <<>>,
           Ev(t, "rootctx") @@ [h |-> h, w3c |-> w3c] @@ (IF src = 0 THEN A!EmptyFn ELSE [src |-> src]),
           (IF boom THEN [panic |-> "index out of bounds"] ELSE A!EmptyFn) @@
           Rt(t, "rootctx") @@ [ctx |-> ctx] @@ (IF rec THEN [h |-> h, cid |-> cid, id |-> h] ELSE [h |-> h]))
  /\ UNCHANGED <<stack, hs, lsets, futs, pushed, natt>>

Child(t, ps, multi) ==
  LET h == New(t)
      one == ps[1]
      noop == ~Enabled \/ (~multi /\ spans[one].st = "noop")
      tok == A!Cat([i \in DOMAIN ps |-> IF spans[ps[i]].st = "live" THEN Issue(ps[i]) ELSE <<>>]) IN
  /\ NSpans < MaxSpans
  /\ spans' = A!Put(spans, h, [tok |-> IF noop THEN <<>> ELSE tok, cid |-> 0, props |-> <<>>, st |-> IF noop THEN "noop" ELSE "live", own |-> t])
  /\ Bump(t)
  /\ Begin(t, <<>>, Ev(t, "child") @@ [h |-> h, ps |-> ps, multi |-> multi],
           Rt(t, "child") @@ (IF ~noop /\ tok # <<>> THEN [h |-> h, id |-> h] ELSE [h |-> h]))
  /\ UNCHANGED <<stack, hs, lsets, futs, pushed, natt>>

\* Span::enter_with_local_parent: the top span line's token with the cursor as parent
ChildLocal(t) ==
  LET h == New(t)
      has == stack[t] # <<>> /\ ~Top(t).lc
      tok == IF has THEN CurTok(Top(t)) ELSE <<>> IN
  /\ NSpans < MaxSpans
  /\ spans' = A!Put(spans, h, [tok |-> tok, cid |-> 0, props |-> <<>>, st |-> IF has THEN "live" ELSE "noop", own |-> t])
  /\ Bump(t)
  /\ Begin(t, <<>>, Ev(t, "childl") @@ [h |-> h],
           Rt(t, "childl") @@ (IF has /\ tok # <<>> THEN [h |-> h, id |-> h] ELSE [h |-> h]))
  /\ UNCHANGED <<stack, hs, lsets, futs, pushed, natt>>

MkNoop(t) ==
  /\ spans' = A!Put(spans, New(t), [tok |-> <<>>, cid |-> 0, props |-> <<>>, st |-> "noop", own |-> t])
  /\ Bump(t)
  /\ Begin(t, <<>>, Ev(t, "mknoop") @@ [h |-> New(t)], Rt(t, "mknoop"))
  /\ UNCHANGED <<stack, hs, lsets, futs, pushed, natt>>

SetLp(t, h) ==
  LET g == New(t)
      live == spans[h].st = "live" /\ Len(stack[t]) < SCap
      tok == IF spans[h].st = "live" THEN Issue(h) ELSE <<>> IN
  /\ NScopes(t) < MaxScopes
  /\ stack' = IF live THEN [stack EXCEPT ![t] = Append(@, [lc |-> FALSE, tok |-> tok, smp |-> AnySmp(tok), q |-> <<>>, nxt |-> 0])] ELSE stack
  \* `full`: the guard exists but its line could not be registered (LocalParentGuard with an empty LocalCollector)
  /\ hs' = [hs EXCEPT ![t] = Append(@, [k |-> "g", n |-> g, live |-> live, full |-> (spans[h].st = "live" /\ ~live)])]
  /\ Bump(t)
  /\ Begin(t, <<>>, Ev(t, "setlp") @@ [g |-> g, h |-> h], Rt(t, "setlp"))
  /\ UNCHANGED <<spans, lsets, futs, pushed, natt>>

DropG(t) ==
  LET x == TopH(t)
      tok == IF x.live THEN Sampled(Top(t).tok) ELSE <<>>
      cmds == IF x.live /\ tok # <<>> THEN <<Send(Submit(Top(t).q, tok))>> ELSE <<>> IN
  /\ hs[t] # <<>> /\ x.k = "g"
  /\ stack' = IF x.live THEN [stack EXCEPT ![t] = Front(@)] ELSE stack
  /\ hs' = [hs EXCEPT ![t] = Front(@)]
  /\ Begin(t, cmds, Ev(t, "dropg") @@ [g |-> x.n],
           IF x.full /\ ~FixStackFull THEN Rt(t, "dropg") @@ [panic |-> "debug_assert token.is_some()"] ELSE Rt(t, "dropg"))
  /\ UNCHANGED <<spans, lsets, futs, pushed, nid, natt>>

LcStart(t) ==
  LET c == New(t) live == Enabled /\ Len(stack[t]) < SCap IN
  /\ NScopes(t) < MaxScopes
  /\ stack' = IF live THEN [stack EXCEPT ![t] = Append(@, [lc |-> TRUE, tok |-> <<>>, smp |-> TRUE, q |-> <<>>, nxt |-> 0])] ELSE stack
  /\ hs' = [hs EXCEPT ![t] = Append(@, [k |-> "c", n |-> c, live |-> live, full |-> FALSE])]
  /\ Bump(t)
  /\ Begin(t, <<>>, Ev(t, "lcstart") @@ [c |-> c], Rt(t, "lcstart"))
  /\ UNCHANGED <<spans, lsets, futs, pushed, natt>>

LcCollect(t) ==
  LET x == TopH(t) ls == New(t) IN
  /\ hs[t] # <<>> /\ x.k = "c" /\ Cardinality(DOMAIN lsets) < MaxLs
  /\ lsets' = A!Put(lsets, ls, IF x.live THEN Top(t).q ELSE <<>>)
  /\ stack' = IF x.live THEN [stack EXCEPT ![t] = Front(@)] ELSE stack
  /\ hs' = [hs EXCEPT ![t] = Front(@)]
  /\ Bump(t)
  /\ Begin(t, <<>>, Ev(t, "lccollect") @@ [c |-> x.n, ls |-> ls], Rt(t, "lccollect"))
  /\ UNCHANGED <<spans, natt, futs, pushed>>

\* LocalCollector::collect() / dropping a local-parent guard while local spans recorded in that
\* scope are still open: they are closed at that moment (C17, C18).  Only for the outermost scope:
\* with another span line underneath, the later drop of those local spans would meet a line of
\* another epoch (the documented precondition: release in reverse order).
HasOpenAbove(t, kind) ==
  /\ Len(stack[t]) = 1 /\ Len(hs[t]) >= 2
  /\ hs[t][1].k = kind /\ hs[t][1].live
  /\ \A i \in 2..Len(hs[t]) : hs[t][i].k = "l"
Orphan(t) == [i \in 1..(Len(hs[t]) - 1) |-> [hs[t][i + 1] EXCEPT !.live = FALSE]]

LcCollectOpen(t) ==
  LET ls == New(t) IN
  /\ HasOpenAbove(t, "c") /\ Cardinality(DOMAIN lsets) < MaxLs
  /\ lsets' = A!Put(lsets, ls, Top(t).q)
  /\ stack' = [stack EXCEPT ![t] = <<>>]
  /\ hs' = [hs EXCEPT ![t] = Orphan(t)]
  /\ Bump(t)
  /\ Begin(t, <<>>, Ev(t, "lccollect") @@ [c |-> hs[t][1].n, ls |-> ls], Rt(t, "lccollect"))
  /\ UNCHANGED <<spans, natt, futs, pushed>>

DropGOpen(t) ==
  LET tok == Sampled(Top(t).tok)
      cmds == IF tok # <<>> THEN <<Send(Submit(Top(t).q, tok))>> ELSE <<>> IN
  /\ HasOpenAbove(t, "g")
  /\ stack' = [stack EXCEPT ![t] = <<>>]
  /\ hs' = [hs EXCEPT ![t] = Orphan(t)]
  /\ Begin(t, cmds, Ev(t, "dropg") @@ [g |-> hs[t][1].n], Rt(t, "dropg"))
  /\ UNCHANGED <<spans, lsets, futs, pushed, nid, natt>>

\* a collector dropped without collect() while local spans entered in it are still open
LcDropOpen(t) ==
  /\ HasOpenAbove(t, "c")
  /\ stack' = [stack EXCEPT ![t] = <<>>]
  /\ hs' = [hs EXCEPT ![t] = Orphan(t)]
  /\ Begin(t, <<>>, Ev(t, "lcdrop") @@ [c |-> hs[t][1].n], Rt(t, "lcdrop"))
  /\ UNCHANGED <<spans, lsets, futs, pushed, nid, natt>>

LcDrop(t) ==
  LET x == TopH(t) IN
  /\ hs[t] # <<>> /\ x.k = "c"
  /\ stack' = IF x.live THEN [stack EXCEPT ![t] = Front(@)] ELSE stack
  /\ hs' = [hs EXCEPT ![t] = Front(@)]
  /\ Begin(t, <<>>, Ev(t, "lcdrop") @@ [c |-> x.n], Rt(t, "lcdrop"))
  /\ UNCHANGED <<spans, lsets, futs, pushed, nid, natt>>

LineOk(t) == stack[t] # <<>> /\ Top(t).smp
HasRoom(t) == Len(Top(t).q) < QCap

LEnter(t) ==
  LET l == New(t) live == LineOk(t) /\ HasRoom(t) IN
  /\ NLocal(t) < MaxLocal
  /\ stack' = IF live THEN SetTop(t, [Top(t) EXCEPT !.q = Append(@, [id |-> l, par |-> Top(t).nxt, k |-> "span", n |-> l, props |-> <<>>]), !.nxt = l])
              ELSE stack
  /\ hs' = [hs EXCEPT ![t] = Append(@, [k |-> "l", n |-> l, live |-> live, full |-> FALSE])]
  /\ Bump(t)
  /\ Begin(t, <<>>, Ev(t, "lenter") @@ [l |-> l], Rt(t, "lenter") @@ (IF live THEN [l |-> l, id |-> l] ELSE [l |-> l]))
  /\ UNCHANGED <<spans, lsets, futs, pushed, natt>>

LExit(t) ==
  LET x == TopH(t) IN
  /\ hs[t] # <<>> /\ x.k = "l"
  /\ stack' = IF x.live
              THEN LET j == CHOOSE j \in DOMAIN Top(t).q : Top(t).q[j].id = x.n IN
                   IF M_("no-restore") THEN stack ELSE SetTop(t, [Top(t) EXCEPT !.nxt = Top(t).q[j].par])
              ELSE stack
  /\ hs' = [hs EXCEPT ![t] = Front(@)]
  /\ Begin(t, <<>>, Ev(t, "lexit") @@ [l |-> x.n], Rt(t, "lexit"))
  /\ UNCHANGED <<spans, lsets, futs, pushed, nid, natt>>

LEvent(t, withp) ==
  LET n == New(t) ok == LineOk(t) /\ HasRoom(t)
      evt == [name |-> n, props |-> IF withp THEN <<KV(n)>> ELSE <<>>] IN
  /\ AttOk /\ natt' = natt + 1
  /\ stack' = IF ok THEN SetTop(t, [Top(t) EXCEPT !.q = Append(@, [id |-> 0, par |-> Top(t).nxt, k |-> "event", n |-> n, props |-> evt.props])]) ELSE stack
  /\ Bump(t)
  /\ Begin(t, <<>>, Ev(t, "levent") @@ [evt |-> evt], Rt(t, "levent") @@ [cc |-> IF Enabled THEN 1 ELSE 0])
  /\ UNCHANGED <<spans, lsets, futs, pushed, hs>>

\* `re`: the property closure itself calls into fastrace (current_local_parent()), as a closure that
\* logs through a fastrace-aware logger or calls a #[trace] function does
LProps(t, re) ==
  LET n == New(t) ok == LineOk(t) /\ HasRoom(t)
      boom == re /\ LineOk(t) /\ ~FixReentrant IN
  /\ AttOk /\ natt' = natt + 1
  /\ stack' = IF ok THEN SetTop(t, [Top(t) EXCEPT !.q = Append(@, [id |-> 0, par |-> Top(t).nxt, k |-> "props", n |-> 0, props |-> <<KV(n)>>])]) ELSE stack
  /\ Bump(t)
  /\ Begin(t, <<>>, Ev(t, "lprops") @@ [kvs |-> <<KV(n)>>, re |-> re],
           (IF boom THEN [panic |-> "already borrowed: BorrowMutError"] ELSE A!EmptyFn) @@
           Rt(t, "lprops") @@ [kvs |-> <<KV(n)>>, cc |-> IF LineOk(t) THEN 1 ELSE 0])
  /\ UNCHANGED <<spans, lsets, futs, pushed, hs>>

\* LocalSpan::with_properties on the innermost local span the caller holds
\* LocalSpan::with_properties on the local span held at position i of the thread's handles - not necessarily
\* the innermost: a scope opened after the span was entered may still be alive above it (released in
\* reverse order all the same).  The span lives on the line that was on top when it was entered; the
\* pinned code looks at the current line instead (debug assertion on the line's epoch).
LWithAt(t, re, i) ==
  LET x == hs[t][i] n == New(t)
      li == Cardinality({j \in 1..(i - 1) : hs[t][j].k \in {"g", "c"} /\ hs[t][j].live})
      onTop == li = Len(stack[t])
      boom == (re /\ x.live /\ ~FixReentrant) \/ (x.live /\ ~onTop /\ ~FixWithLine) IN
  /\ x.k = "l"
  /\ AttOk /\ natt' = natt + 1
  /\ stack' = IF x.live /\ li >= 1 /\ (onTop \/ FixWithLine)
              THEN [stack EXCEPT ![t][li].q = [j \in DOMAIN @ |-> IF @[j].id = x.n THEN [@[j] EXCEPT !.props = Append(@, KV(n))] ELSE @[j]]]
              ELSE stack
  /\ Bump(t)
  /\ Begin(t, <<>>, Ev(t, "lwith") @@ [l |-> x.n, kvs |-> <<KV(n)>>, re |-> re],
           (IF boom THEN [panic |-> IF re /\ ~FixReentrant THEN "already borrowed: BorrowMutError" ELSE "assertion `left == right` failed"] ELSE A!EmptyFn) @@
           Rt(t, "lwith") @@ [l |-> x.n, kvs |-> <<KV(n)>>, cc |-> IF x.live THEN 1 ELSE 0])
  /\ UNCHANGED <<spans, lsets, futs, pushed, hs>>
\* Known finding D20: on the pinned code the call on a span that is not the innermost handle fails a debug
\* assertion - and the span's destructor fails it again while unwinding, which aborts the process - or,
\* without debug assertions, drops the properties.  The repository's own unit test
\* unmatched_span_line_add_properties expects that panic, so there is no repair that keeps the suite
\* unedited.  The replayed instances therefore only call it on the innermost handle; the general case
\* is shown on the real code by `fvharness withline` (one child process) in check C07.
LWith(t, re) == \E i \in DOMAIN hs[t] : (FixWithLine \/ i = Len(hs[t])) /\ LWithAt(t, re, i)

\* Span::add_event / add_properties: a pseudo child span submitted at once
SAttach(t, h, kind, withp) ==
  LET n == New(t)
      tok == IF spans[h].st = "live" THEN Sampled(Issue(h)) ELSE <<>>
      raw == IF kind = "event" THEN [id |-> 0, par |-> 0, k |-> "event", n |-> n, props |-> IF withp THEN <<KV(n)>> ELSE <<>>]
             ELSE [id |-> 0, par |-> 0, k |-> "props", n |-> 0, props |-> <<KV(n)>>]
      cmds == IF tok # <<>> THEN <<Send(Submit(<<raw>>, tok))>> ELSE <<>> IN
  /\ AttOk /\ natt' = natt + 1
  /\ Bump(t)
  /\ IF kind = "event"
     THEN Begin(t, cmds, Ev(t, "sevent") @@ [h |-> h, evt |-> [name |-> n, props |-> raw.props]],
                Rt(t, "sevent") @@ [h |-> h, evt |-> [name |-> n, props |-> raw.props], cc |-> IF Enabled THEN 1 ELSE 0])
     ELSE Begin(t, cmds, Ev(t, "sprops") @@ [h |-> h, kvs |-> <<KV(n)>>],
                Rt(t, "sprops") @@ [h |-> h, kvs |-> <<KV(n)>>, cc |-> IF spans[h].st = "live" THEN 1 ELSE 0])
  /\ UNCHANGED <<spans, lsets, futs, pushed, stack, hs>>

SWith(t, h) ==
  LET n == New(t) IN
  /\ AttOk /\ natt' = natt + 1
  /\ spans' = IF spans[h].st = "live" THEN [spans EXCEPT ![h].props = Append(@, KV(n))] ELSE spans
  /\ Bump(t)
  /\ Begin(t, <<>>, Ev(t, "swith") @@ [h |-> h, kvs |-> <<KV(n)>>],
           Rt(t, "swith") @@ [h |-> h, kvs |-> <<KV(n)>>, cc |-> IF spans[h].st = "live" THEN 1 ELSE 0])
  /\ UNCHANGED <<lsets, futs, pushed, stack, hs>>

PushC(t, h, ls) ==
  LET tok0 == IF spans[h].st = "live" THEN Sampled(Issue(h)) ELSE <<>>
      tok == IF M_("push-once") /\ \E x \in pushed : x[2] = ls /\ x[1] > 0 THEN <<>> ELSE tok0
      cmds == IF lsets[ls] # <<>> /\ tok # <<>> THEN <<Send(Submit(lsets[ls], tok))>> ELSE <<>> IN
  /\ <<h, ls>> \notin pushed
  /\ pushed' = pushed \cup {<<h, ls>>}
  /\ Begin(t, cmds, Ev(t, "pushc") @@ [h |-> h, ls |-> ls], Rt(t, "pushc"))
  /\ UNCHANGED <<spans, lsets, futs, stack, hs, nid, natt>>

Cancel(t, h) ==
  LET cmds == IF spans[h].st = "live" /\ spans[h].cid # 0 THEN <<Force([k |-> "drop", c |-> spans[h].cid])>> ELSE <<>> IN
  /\ Begin(t, cmds, Ev(t, "cancel") @@ [h |-> h], Rt(t, "cancel"))
  /\ UNCHANGED <<spans, lsets, futs, pushed, stack, hs, nid, natt>>

DropSpan(t, h) ==
  LET s == spans[h]
      tok == IF s.st = "live" THEN Sampled(s.tok) ELSE <<>>
      raw == [id |-> h, par |-> 0, k |-> "span", n |-> h, props |-> s.props]
      cmds == (IF tok # <<>> THEN <<Send(Submit(<<raw>>, tok))>> ELSE <<>>) \o
              (IF s.st = "live" /\ s.cid # 0 THEN <<Force([k |-> "commit", c |-> s.cid])>> ELSE <<>>) IN
  /\ spans' = [spans EXCEPT ![h].st = "done"]
  /\ Begin(t, cmds, Ev(t, "drop") @@ [h |-> h], Rt(t, "drop"))
  /\ UNCHANGED <<lsets, futs, pushed, stack, hs, nid, natt>>

\* SpanContext::current_local_parent / from_span
CtxL(t) ==
  LET has == stack[t] # <<>> /\ ~Top(t).lc
      tok == IF has THEN CurTok(Top(t)) ELSE <<>>
      boom == has /\ tok = <<>> /\ ~FixEmptyToken
      ctx == IF has /\ tok # <<>> THEN [some |-> TRUE, tr |-> tok[1].tr, id |-> tok[1].par, smp |-> tok[1].smp] ELSE [some |-> FALSE] IN
  /\ Begin(t, <<>>, Ev(t, "ctxl"),
           IF boom THEN Rt(t, "ctxl") @@ [ctx |-> ctx, panic |-> "index out of bounds"] ELSE Rt(t, "ctxl") @@ [ctx |-> ctx])
  /\ UNCHANGED <<spans, lsets, futs, pushed, stack, hs, nid, natt>>

CtxS(t, h) ==
  LET tok == IF spans[h].st = "live" THEN Issue(h) ELSE <<>>
      it == IF tok = <<>> THEN None ELSE IF M_("ctx-last") THEN tok[Len(tok)] ELSE tok[1]
      ctx == IF tok # <<>> THEN [some |-> TRUE, tr |-> it.tr, id |-> h, smp |-> it.smp] ELSE [some |-> FALSE] IN
  /\ Begin(t, <<>>, Ev(t, "ctxs") @@ [h |-> h], Rt(t, "ctxs") @@ [h |-> h, ctx |-> ctx])
  /\ UNCHANGED <<spans, lsets, futs, pushed, stack, hs, nid, natt>>

----------------------------------------------------------------------------
(* adapters: future.rs (InSpan, EnterOnPoll), fastrace-futures (Stream / Sink InSpan).             *)
(* A poll is one call: set_local_parent(span), the inner poll (a scripted inner future that does   *)
(* `inner`), and - when the inner completes (fin) - the span is dropped.  The pinned code drops    *)
(* the span before the local-parent guard; FixInSpan releases the guard first.                     *)
FNew(t, h, kind) ==
  LET f == New(t) IN
  /\ futs' = A!Put(futs, f, [h |-> h, kind |-> kind, done |-> FALSE, polls |-> 0, held |-> 0])
  /\ Bump(t)
  /\ Begin(t, <<>>, Ev(t, "fnew") @@ [f |-> f, h |-> h, kind |-> kind], Rt(t, "fnew"))
  /\ UNCHANGED <<spans, lsets, pushed, stack, hs, natt>>

\* what the scripted inner does on span line ln (has = there is a line); n = fresh name
\* returns <<line', events>>
Inner(t, ln, has, inner, n) ==
  LET ok == has /\ ln.smp /\ Len(ln.q) < QCap IN
  CASE inner = "ls" ->
         <<IF ok THEN [ln EXCEPT !.q = Append(@, [id |-> n, par |-> ln.nxt, k |-> "span", n |-> n, props |-> <<>>])] ELSE ln,
           <<Ev(t, "lenter") @@ [l |-> n], (Rt(t, "lenter") @@ (IF ok THEN [l |-> n, id |-> n] ELSE [l |-> n])),
             Ev(t, "lexit") @@ [l |-> n], Rt(t, "lexit") @@ [l |-> n]>>>>
    [] inner = "ev" ->
         <<IF ok THEN [ln EXCEPT !.q = Append(@, [id |-> 0, par |-> ln.nxt, k |-> "event", n |-> n, props |-> <<>>])] ELSE ln,
           <<Ev(t, "levent") @@ [evt |-> [name |-> n, props |-> <<>>]], Rt(t, "levent") @@ [evt |-> [name |-> n, props |-> <<>>], cc |-> IF Enabled THEN 1 ELSE 0]>>>>
    [] inner = "ctx" ->
         LET tok == IF has /\ ~ln.lc THEN CurTok(ln) ELSE <<>>
             ctx == IF tok # <<>> THEN [some |-> TRUE, tr |-> tok[1].tr, id |-> tok[1].par, smp |-> tok[1].smp] ELSE [some |-> FALSE] IN
         <<ln, <<Ev(t, "ctxl"), Rt(t, "ctxl") @@ [ctx |-> ctx]>>>>
    [] inner = "hold" ->
         \* the inner future creates a span under the local parent and keeps it across polls
         LET tok == IF has /\ ~ln.lc THEN CurTok(ln) ELSE <<>> IN
         <<ln, <<Ev(t, "childl") @@ [h |-> n], Rt(t, "childl") @@ (IF has /\ ~ln.lc /\ tok # <<>> THEN [h |-> n, id |-> n] ELSE [h |-> n])>>>>
    [] OTHER -> <<ln, <<>>>>

\* the span a scripted inner future holds is finished when the inner completes or is dropped -
\* InSpan drops its inner before its span (field order)
HeldCmds(c) ==
  IF c = 0 THEN <<>>
  ELSE LET s == spans[c] tok == IF s.st = "live" THEN Sampled(s.tok) ELSE <<>> IN
       IF tok # <<>> THEN <<Send(Submit(<<[id |-> c, par |-> 0, k |-> "span", n |-> c, props |-> s.props]>>, tok))>> ELSE <<>>

FPoll(t, f, inner, fin) ==
  LET fu == futs[f] h == fu.h g == New(t) n == New(t) + 1
      live == ~fu.done /\ fu.kind # "eop" /\ spans[h].st = "live" /\ Len(stack[t]) < SCap
      tok == IF live THEN Issue(h) ELSE <<>>
      fresh == [lc |-> FALSE, tok |-> tok, smp |-> AnySmp(tok), q |-> <<>>, nxt |-> 0]
      \* in_span: the inner runs on the adapter's own line; otherwise on whatever line is on top
      hasTop == stack[t] # <<>>
      base == IF live THEN fresh ELSE IF hasTop THEN Top(t) ELSE fresh
      has == live \/ hasTop
      \* enter_on_poll: a local span around the inner poll
      eop == fu.kind = "eop"
      eok == eop /\ has /\ base.smp /\ Len(base.q) < QCap
      base1 == IF eok THEN [base EXCEPT !.q = Append(@, [id |-> g, par |-> base.nxt, k |-> "span", n |-> g, props |-> <<>>]), !.nxt = g] ELSE base
      holdNow == inner = "hold" /\ fu.held = 0
      r == Inner(t, base1, has, IF inner = "hold" /\ ~holdNow THEN "none" ELSE inner, n)
      ln == IF eok THEN [r[1] EXCEPT !.nxt = base.nxt] ELSE r[1]
      htok == IF has /\ ~base1.lc THEN CurTok(base1) ELSE <<>>
      spans1 == IF holdNow THEN A!Put(spans, n, [tok |-> htok, cid |-> 0, props |-> <<>>, st |-> IF has /\ ~base1.lc THEN "live" ELSE "noop", own |-> t])
                ELSE spans
      held == IF holdNow THEN n ELSE fu.held
      \* the inner completes: what it holds goes first
      rel == IF fin /\ held # 0 THEN held ELSE 0
      relcmds == IF rel = 0 THEN <<>>
                 ELSE LET s == spans1[rel] tk == IF s.st = "live" THEN Sampled(s.tok) ELSE <<>> IN
                      IF tk # <<>> THEN <<Send(Submit(<<[id |-> rel, par |-> 0, k |-> "span", n |-> rel, props |-> s.props]>>, tk))>> ELSE <<>>
      finish == fin /\ ~fu.done /\ ~eop
      sub == Sampled(tok)
      locals == IF live /\ sub # <<>> THEN <<Send(Submit(ln.q, sub))>> ELSE <<>>
      sp == spans[h]
      stok == IF finish /\ sp.st = "live" THEN Sampled(sp.tok) ELSE <<>>
      own == (IF stok # <<>> THEN <<Send(Submit(<<[id |-> h, par |-> 0, k |-> "span", n |-> h, props |-> sp.props]>>, stok))>> ELSE <<>>) \o
             (IF finish /\ sp.st = "live" /\ sp.cid # 0 THEN <<Force([k |-> "commit", c |-> sp.cid])>> ELSE <<>>)
      cmds == relcmds \o (IF FixInSpan THEN locals \o own ELSE own \o locals)
      call == Ev(t, "fpoll") @@ [f |-> f, g |-> g, inner |-> inner, fin |-> fin]
      evs == <<call>> \o r[2] \o <<Ev(t, "pollend") @@ [f |-> f, fin |-> fin] @@ (IF rel # 0 THEN [held |-> rel] ELSE A!EmptyFn)>>
      gh == A!AbsRun(a, evs, 1)
      spans2 == IF rel # 0 THEN [spans1 EXCEPT ![rel].st = "done"] ELSE spans1 IN
  /\ fu.polls < MaxPolls
  /\ holdNow => NSpans < MaxSpans
  /\ futs' = [futs EXCEPT ![f].done = @ \/ finish, ![f].polls = @ + 1, ![f].held = IF rel # 0 THEN 0 ELSE held]
  /\ spans' = IF finish THEN [spans2 EXCEPT ![h].st = "done"] ELSE spans2
  /\ stack' = IF live \/ ~hasTop THEN stack ELSE SetTop(t, ln)
  /\ nid' = [nid EXCEPT ![t] = @ + 2]
  /\ hist' = Append(hist, call)
  /\ Advance(t, cmds, gh, Rt(t, "fpoll") @@ call)
  /\ UNCHANGED <<lsets, pushed, hs, natt>>

\* the adapter is dropped: a span it still holds finishes
FDrop(t, f) ==
  LET fu == futs[f] h == fu.h sp == spans[h]
      go == ~fu.done /\ fu.kind # "eop" /\ sp.st = "live"
      stok == IF go THEN Sampled(sp.tok) ELSE <<>>
      own == (IF stok # <<>> THEN <<Send(Submit(<<[id |-> h, par |-> 0, k |-> "span", n |-> h, props |-> sp.props]>>, stok))>> ELSE <<>>) \o
             (IF go /\ sp.cid # 0 THEN <<Force([k |-> "commit", c |-> sp.cid])>> ELSE <<>>)
      \* the adapter's fields are dropped in order: the inner (and what it holds) before the span
      cmds == IF M_("span-before-inner") THEN own \o HeldCmds(fu.held) ELSE HeldCmds(fu.held) \o own
      spans1 == IF fu.held # 0 THEN [spans EXCEPT ![fu.held].st = "done"] ELSE spans IN
  /\ futs' = [futs EXCEPT ![f].done = TRUE, ![f].polls = MaxPolls, ![f].held = 0]
  /\ spans' = IF fu.kind # "eop" /\ Usable(h) THEN [spans1 EXCEPT ![h].st = "done"] ELSE spans1
  /\ Begin(t, cmds, Ev(t, "fdrop") @@ [f |-> f] @@ (IF fu.held # 0 THEN [held |-> fu.held] ELSE A!EmptyFn), Rt(t, "fdrop"))
  /\ UNCHANGED <<lsets, pushed, stack, hs, nid, natt>>

\* thread exit: the sender's destructor flushes the overflow list, then the producer half goes away
Exit(t) ==
  /\ hs[t] = <<>>
  /\ Begin(t, IF pend[t] = <<>> THEN <<>> ELSE <<[mode |-> "exit", cmd |-> None, stage |-> "exit"]>>, Ev(t, "exit"), Rt(t, "exit"))
  /\ UNCHANGED <<spans, lsets, futs, pushed, stack, hs, nid, natt>>

Push(t) ==
  /\ cur[t] # <<>> /\ tst[t] = "live"
  /\ ~(M_("force-blocks") /\ Head(cur[t]).mode = "force" /\ Len(ring[t]) >= K)
  /\ Advance(t, cur[t], a, inop[t])
  /\ hist' = Append(hist, [ev |-> "push", t |-> t])
  /\ UNCHANGED <<reg, stack, hs, spans, lsets, futs, pushed, cph, ci, batch, cown, active, nid, nops, natt, ncyc, nfl, pc, quiet>>

----------------------------------------------------------------------------
(* the collector (global_collector.rs: handle_commands) *)

\* the batch processing itself is Collector.tla (pure operators, also applied by TraceColl.tla to the
\* batches the real collector processed)
Coll == INSTANCE Collector
CollCf == [canc |-> Cancelable, fixcd |-> FixCancelDefault, mut |-> Mut]
EmptyAC == Coll!EmptyAC
Sel(b, kind) == Coll!Sel(b, kind)
Post(colls, dang) == Coll!Post(colls, dang)

\* LocalSpans::to_span_records(context): the same amend / mount as the collector, on the caller's
\* thread, no command.  src = 0: a made-up context; otherwise the context of span src.
ToRec(t, ls, src) ==
  LET v == New(t)
      tok == IF src = 0 THEN <<>> ELSE IF spans[src].st = "live" THEN Issue(src) ELSE <<>>
      ctx == IF src = 0 THEN [some |-> TRUE, tr |-> 0, id |-> v, smp |-> TRUE]
             ELSE IF tok # <<>> THEN [some |-> TRUE, tr |-> tok[1].tr, id |-> src, smp |-> tok[1].smp] ELSE [some |-> FALSE]
      recs == IF ctx.some THEN Post(<<[q |-> lsets[ls], tr |-> ctx.tr, par |-> ctx.id]>>, <<>>)[1] ELSE <<>> IN
  /\ <<0 - 1 - src, ls>> \notin pushed
  /\ pushed' = pushed \cup {<<0 - 1 - src, ls>>}
  /\ Bump(t)
  /\ Begin(t, <<>>, Ev(t, "torec") @@ [ls |-> ls, v |-> v] @@ (IF src = 0 THEN A!EmptyFn ELSE [src |-> src]),
           Rt(t, "torec") @@ [ctx |-> ctx, recs |-> recs])
  /\ UNCHANGED <<spans, lsets, futs, stack, hs, natt>>

\* <<active', records>>
Process(b) == Coll!Process(CollCf, active, b)

\* end of a cycle: process, report, and the flush() that owns the cycle returns
Starting == {t \in Threads : tst[t] = "starting"}
Finish(b, g, owner) ==
  LET pr == Process(b)
      g1 == A!AbsStep(g, [ev |-> "process"])
      g2 == A!AbsStep(g1, [ev |-> "report", recs |-> pr[2]])
      g3 == A!AbsStep(g2, [ev |-> "cycend"])
      g4 == IF owner # 0 THEN A!AbsStep(g3, Rt(owner, "flush")) ELSE g3 IN
  /\ active' = pr[1]
  /\ a' = g4
  /\ batch' = <<>> /\ cph' = "idle" /\ ci' = 0 /\ cown' = 0

Cyc ==
  /\ Enabled /\ Ready        \* without a reporter there is no collector
  /\ cph = "idle" /\ ncyc < MaxCycles
  /\ ncyc' = ncyc + 1
  /\ hist' = Append(hist, [ev |-> "cyc"])
  /\ LET g == A!AbsStep(a, [ev |-> "cycbegin"]) IN
     IF reg = <<>> THEN Finish(<<>>, g, 0)
     ELSE a' = g /\ cph' = "drain" /\ ci' = 1 /\ UNCHANGED <<batch, cown, active>>
  /\ UNCHANGED <<tst, reg, ring, pend, cur, inop, stack, hs, spans, lsets, futs, pushed, nid, nops, natt, nfl, pc, quiet>>

Flush(t) ==
  /\ Enabled /\ Ready
  /\ cph = "idle" /\ nfl < MaxFlush
  /\ nfl' = nfl + 1
  /\ hist' = Append(hist, Ev(t, "flush"))
  /\ LET g == A!AbsStep(A!AbsStep(a, Ev(t, "flush")), [ev |-> "cycbegin"]) IN
     IF reg = <<>> THEN Finish(<<>>, g, t)
     ELSE a' = g /\ cph' = "drain" /\ ci' = 1 /\ cown' = t /\ UNCHANGED <<batch, active>>
  /\ UNCHANGED <<tst, reg, ring, pend, cur, inop, stack, hs, spans, lsets, futs, pushed, nid, nops, natt, ncyc, pc, quiet>>

\* set_reporter() called again (GlobalCollector::start): a fresh collector object - whatever the old one kept per
\* trace is gone - over the same registry of receivers; the command queues and what the threads hold are untouched.
\* In the default configuration nothing recorded afterwards may be lost by that (what arrives for a trace the new
\* collector never saw started takes the late path).  Spends one unit of the flush budget.
Reinstall ==
  /\ "reinstall" \in Menu /\ Enabled /\ Ready
  /\ cph = "idle" /\ nfl < MaxFlush
  /\ nfl' = nfl + 1
  /\ active' = A!EmptyFn
  /\ hist' = Append(hist, [ev |-> "reinstall"])
  /\ a' = A!AbsStep(a, [ev |-> "reinstall"])
  /\ UNCHANGED <<tst, reg, ring, pend, cur, inop, stack, hs, spans, lsets, futs, pushed, cph, ci, batch, cown, nid, nops, natt, ncyc, pc, quiet>>

GhostDrain(g, t) == IF TrackCut THEN A!AbsStep(g, [ev |-> "drain", t |-> t]) ELSE g

Col ==
  /\ cph \in {"drain", "check"}
  /\ hist' = Append(hist, [ev |-> "col"])
  /\ LET t == reg[ci] IN
     IF cph = "drain"
     THEN \* pop until empty
          /\ batch' = batch \o ring[t]
          /\ ring' = [ring EXCEPT ![t] = <<>>]
          /\ cph' = "check"
          /\ a' = GhostDrain(a, t)
          /\ UNCHANGED <<reg, ci, cown, active, tst>>
     ELSE IF tst[t] = "dead" /\ FixRecv /\ ring[t] # <<>>
     THEN \* repaired try_recv: look once more after seeing the channel abandoned
          /\ batch' = batch \o ring[t]
          /\ ring' = [ring EXCEPT ![t] = <<>>]
          /\ a' = GhostDrain(a, t)
          /\ UNCHANGED <<reg, ci, cph, cown, active, tst>>
     ELSE LET dead == tst[t] = "dead"
              reg1 == IF dead THEN [i \in 1..(Len(reg) - 1) |-> IF i < ci THEN reg[i] ELSE reg[i + 1]] ELSE reg
              nxt == IF dead THEN ci ELSE ci + 1 IN
          \* a removed receiver takes what is still in its ring with it
          /\ ring' = IF dead THEN [ring EXCEPT ![t] = <<>>] ELSE ring
          /\ IF nxt > Len(reg1)
             THEN \* the sweep is over, the registry is unlocked: threads that were waiting to register do so now
                  /\ reg' = reg1 \o SetToSortSeq(Starting, <)
                  /\ tst' = [u \in Threads |-> IF tst[u] = "starting" THEN "live" ELSE tst[u]]
                  /\ Finish(batch, a, cown)
             ELSE reg' = reg1 /\ a' = a /\ cph' = "drain" /\ ci' = nxt /\ UNCHANGED <<batch, cown, active, tst>>
  /\ UNCHANGED <<pend, cur, inop, stack, hs, spans, lsets, futs, pushed, nid, nops, natt, ncyc, nfl, pc, quiet>>

\* a new thread's first touch of its sender registers the receiver; that needs the registry,
\* which the collector holds for the whole sweep: the thread waits until the sweep is over
Spawn(t) ==
  /\ tst[t] = "unborn"
  /\ tst' = [tst EXCEPT ![t] = IF cph = "idle" THEN "live" ELSE "starting"]
  /\ reg' = IF cph = "idle" THEN Append(reg, t) ELSE reg
  /\ hist' = Append(hist, [ev |-> "spawn", t |-> t])
  /\ UNCHANGED <<ring, pend, cur, inop, stack, hs, spans, lsets, futs, pushed, cph, ci, batch, cown, active, nid, nops, natt, ncyc, nfl, pc, quiet, a>>

----------------------------------------------------------------------------
(* programs *)
M(n) == n \in Menu
Bound(h) == \E f \in DOMAIN futs : futs[f].h = h \/ futs[f].held = h
\* nobody is inside a call on that span / adapter (a caller needs the object for the call's duration)
FreeH(h) == \A u \in Threads : IF inop[u] = None THEN TRUE ELSE ~("h" \in DOMAIN inop[u] /\ inop[u].h = h)
FreeF(f) == \A u \in Threads : IF inop[u] = None THEN TRUE ELSE ~("f" \in DOMAIN inop[u] /\ inop[u].f = f)
Handles(t) == {h \in DOMAIN spans : Usable(h) /\ Mine(t, h) /\ ~Bound(h) /\ FreeH(h)}
LiveH(t) == {h \in Handles(t) : spans[h].st = "live"}

\* operations TLC may choose for thread t
MenuOp(t) ==
  \/ M("root") /\ \E tr \in 1..MaxTraces, smp \in SmpChoices : Root(t, tr, smp)
  \/ M("rootctx") /\ \E h \in Handles(t) \cup {0}, w \in BOOLEAN : RootCtx(t, h, w)
  \/ M("child") /\ \E h \in Handles(t) : Child(t, <<h>>, FALSE)
  \/ M("child2") /\ \E h1, h2 \in Handles(t) : h1 < h2 /\ Child(t, <<h1, h2>>, TRUE)
  \* ... the parents listed in the other order (the first parent's trace is the span's own context)
  \/ M("child2r") /\ \E h1, h2 \in Handles(t) : h1 > h2 /\ Child(t, <<h1, h2>>, TRUE)
  \/ M("childm") /\ \E h \in Handles(t) : spans[h].st = "noop" /\ Child(t, <<h>>, TRUE)
  \/ M("childl") /\ ChildLocal(t)
  \/ M("mknoop") /\ MkNoop(t)
  \/ M("setlp") /\ \E h \in Handles(t) : SetLp(t, h)
  \/ M("dropg") /\ DropG(t)
  \/ M("lcstart") /\ LcStart(t)
  \/ M("lccollect") /\ LcCollect(t)
  \/ M("collectopen") /\ (LcCollectOpen(t) \/ DropGOpen(t) \/ LcDropOpen(t))
  \/ M("lcdrop") /\ LcDrop(t)
  \/ M("lenter") /\ LEnter(t)
  \/ M("lexit") /\ LExit(t)
  \/ M("levent") /\ \E w \in BOOLEAN : LEvent(t, w)
  \/ M("lprops") /\ LProps(t, FALSE)
  \/ M("lwith") /\ LWith(t, FALSE)
  \/ M("lpropsre") /\ LProps(t, TRUE)
  \/ M("lwithre") /\ LWith(t, TRUE)
  \/ M("sevent") /\ \E h \in Handles(t) : SAttach(t, h, "event", FALSE)
  \/ M("sprops") /\ \E h \in Handles(t) : SAttach(t, h, "props", FALSE)
  \/ M("swith") /\ \E h \in Handles(t) : SWith(t, h)
  \/ M("pushc") /\ \E h \in Handles(t), ls \in DOMAIN lsets : PushC(t, h, ls)
  \/ M("torec") /\ \E h \in Handles(t) \cup {0}, ls \in DOMAIN lsets : ToRec(t, ls, h)
  \/ M("cancel") /\ \E h \in Handles(t) : Cancel(t, h)
  \/ M("drop") /\ \E h \in Handles(t) : DropSpan(t, h)
  \/ M("ctxl") /\ CtxL(t)
  \/ M("ctxs") /\ \E h \in Handles(t) : CtxS(t, h)
  \* somebody must remain to finish the spans that are still alive
  \/ M("fnew") /\ \E h \in Handles(t), k \in AdapterKinds \ {"eop"} : Cardinality(DOMAIN futs) < MaxFuts /\ FNew(t, h, k)
  \/ M("fnew") /\ "eop" \in AdapterKinds /\ Cardinality(DOMAIN futs) < MaxFuts /\ FNew(t, 0, "eop")
  \/ M("fpoll") /\ \E f \in DOMAIN futs, i \in InnerKinds, fin \in BOOLEAN : FreeF(f) /\ (futs[f].polls < MaxPolls - 1 \/ fin) /\ FPoll(t, f, i, fin)
  \/ M("fdrop") /\ \E f \in DOMAIN futs : FreeF(f) /\ futs[f].polls < MaxPolls /\ FDrop(t, f)
  \/ M("exit") /\ ((\E u \in Threads \ {t} : tst[u] = "live") \/ \A h \in DOMAIN spans : ~Usable(h)) /\ Exit(t)

\* a fixed program step [op, args...]; handles are given as positions in creation order (nid values)
Step(t, s) ==
  CASE s.op = "root"   -> Root(t, s.tr, s.smp)
    [] s.op = "child"  -> Child(t, s.ps, Len(s.ps) > 1)
    [] s.op = "childl" -> ChildLocal(t)
    [] s.op = "mknoop" -> MkNoop(t)
    [] s.op = "childm" -> Child(t, s.ps, TRUE)      \* enter_with_parents, also for a single (no-op) parent
    [] s.op = "setlp"  -> SetLp(t, s.h)
    [] s.op = "dropg"  -> DropG(t)
    [] s.op = "lenter" -> LEnter(t)
    [] s.op = "lexit"  -> LExit(t)
    [] s.op = "levent" -> LEvent(t, FALSE)
    [] s.op = "lprops" -> LProps(t, FALSE)
    [] s.op = "sevent" -> SAttach(t, s.h, "event", FALSE)
    [] s.op = "sprops" -> SAttach(t, s.h, "props", FALSE)
    [] s.op = "cancel" -> Cancel(t, s.h)
    [] s.op = "drop"   -> DropSpan(t, s.h)
    [] s.op = "exit"   -> Exit(t)
    [] s.op = "lcstart" -> LcStart(t)
    [] s.op = "lccollect" -> LcCollect(t)
    [] s.op = "pushc"  -> PushC(t, s.h, s.ls)
    [] s.op = "torec"  -> ToRec(t, s.ls, IF "src" \in DOMAIN s THEN s.src ELSE 0)
    [] s.op = "ctxl"   -> CtxL(t)

Fixed == \E t \in Threads : Prog[t] # <<>>

Op(t) ==
  /\ CanStart(t)
  /\ IF Fixed /\ (~Prefix \/ pc[t] <= Len(Prog[t]))
     THEN /\ pc[t] <= Len(Prog[t])
          \* a step may wait for a handle another thread creates
          /\ (("h" \in DOMAIN Prog[t][pc[t]]) => Prog[t][pc[t]].h \in DOMAIN spans)
          /\ (("ps" \in DOMAIN Prog[t][pc[t]]) => \A i \in DOMAIN Prog[t][pc[t]].ps : Prog[t][pc[t]].ps[i] \in DOMAIN spans)
          /\ (("after" \in DOMAIN Prog[t][pc[t]]) => \A u \in DOMAIN Prog[t][pc[t]].after : pc[u] > Prog[t][pc[t]].after[u])
          /\ Step(t, Prog[t][pc[t]])
          /\ pc' = [pc EXCEPT ![t] = @ + 1]
          /\ UNCHANGED nops
     ELSE /\ Budget
          /\ Prefix => \A u \in Threads : tst[u] # "live" \/ pc[u] > Len(Prog[u])
          /\ MenuOp(t)
          /\ nops' = nops + 1
          /\ UNCHANGED pc
  /\ UNCHANGED <<reg, cph, ci, batch, cown, active, ncyc, nfl, quiet>>

\* deterministic teardown once the budget is spent: close what is open (innermost first), finish
\* the remaining spans, exit; lowest thread first; no branching
\* nobody is left to make a call (every thread has exited, none can be started)
NoActor == \A t \in Threads : tst[t] = "dead" \/ (tst[t] = "unborn" /\ ~M("spawn"))
ProgDone == IF Fixed /\ ~Prefix THEN \A t \in Threads : tst[t] # "live" \/ pc[t] > Len(Prog[t])
            ELSE (~Budget \/ NoActor) /\ \A t \in Threads : tst[t] # "live" \/ pc[t] > Len(Prog[t])
Idle(t) == cur[t] = <<>> /\ inop[t] = None
LowestBusy == {t \in Threads : tst[t] = "live" /\ Idle(t)}
Teardown(t) ==
  /\ ProgDone /\ cph = "idle" /\ tst[t] = "live" /\ Idle(t)
  /\ \A u \in Threads : Idle(u) \/ tst[u] # "live"
  /\ t \in LowestBusy /\ \A u \in LowestBusy : t <= u
  /\ IF hs[t] # <<>>
     THEN CASE TopH(t).k = "l" -> LExit(t)
            [] TopH(t).k = "g" -> DropG(t)
            [] TopH(t).k = "c" -> LcDrop(t)
     ELSE IF \E f \in DOMAIN futs : futs[f].polls < MaxPolls THEN FDrop(t, CHOOSE f \in DOMAIN futs : futs[f].polls < MaxPolls)
     ELSE LET S == {h \in DOMAIN spans : Usable(h) /\ ~Bound(h) /\ (spans[h].own = t \/ tst[spans[h].own] = "dead")} IN
          IF S # {} THEN DropSpan(t, CHOOSE x \in S : \A y \in S : y <= x)   \* children before parents
          ELSE Exit(t)     \* every thread ends by exiting: parked commands are flushed
  /\ UNCHANGED <<reg, cph, ci, batch, cown, active, nops, ncyc, nfl, pc, quiet>>

AllQuiet == /\ ProgDone /\ cph = "idle" /\ LowestBusy = {}
            /\ \A t \in Threads : Idle(t) \/ tst[t] # "live"

\* final cycles: run to quiescence, then compare the collector's retained state (C08)
QuietCycle ==
  /\ AllQuiet /\ quiet < 2
  /\ quiet' = quiet + 1
  /\ hist' = Append(hist, [ev |-> "cycle"])
  /\ LET RECURSIVE go(_, _, _, _)
         \* drain every receiver in registry order; dead ones are removed (with the repaired
         \* try_recv nothing is lost, with the pinned one what is left in the ring would be)
         go(i, rg, b, rn) == IF i > Len(reg) THEN <<rg, b, rn>>
                             ELSE LET t == reg[i] IN
                                  go(i + 1, IF tst[t] = "dead" THEN rg ELSE Append(rg, t), b \o ring[t], [rn EXCEPT ![t] = <<>>])
         d == go(1, <<>>, <<>>, ring)
         pr == Process(d[2])
         g1 == A!AbsStep(a, [ev |-> "cycbegin"])
         g2 == IF TrackCut THEN A!AbsRun(g1, [i \in DOMAIN reg |-> [ev |-> "drain", t |-> reg[i]]], 1) ELSE g1
         g3 == A!AbsStep(A!AbsStep(A!AbsStep(g2, [ev |-> "process"]), [ev |-> "report", recs |-> pr[2]]), [ev |-> "cycend"])
         g4 == IF quiet = 1
               THEN A!AbsStep(A!AbsStep(g3, [ev |-> "idle"]), [ev |-> "stats", active |-> SetToSortSeq(DOMAIN pr[1], <),
                                   deadrx |-> Cardinality({i \in DOMAIN d[1] : tst[d[1][i]] = "dead"})])
               ELSE g3 IN
     /\ reg' = d[1] /\ ring' = d[3] /\ active' = pr[1] /\ a' = g4
  /\ UNCHANGED <<tst, pend, cur, inop, stack, hs, spans, lsets, futs, pushed, cph, ci, batch, cown, nid, nops, natt, ncyc, nfl, pc>>

Done == AllQuiet /\ quiet = 2

\* the budget is not spent but no operation of the menu is possible any more (every root the bounds allow
\* has been made and finished, say): the rest of the budget is given up, so that the behaviour is torn
\* down and printed like any other instead of ending nowhere
GiveUp ==
  /\ (~Fixed \/ Prefix) /\ Budget /\ cph = "idle"
  /\ \A t \in Threads : Idle(t) \/ tst[t] # "live"
  /\ \A t \in Threads : ~ENABLED Op(t)
  /\ \A t \in Threads : ~(M("spawn") /\ ENABLED Spawn(t)) /\ ~(M("flush") /\ CanStart(t) /\ ENABLED Flush(t))
  /\ nops' = MaxOps
  /\ UNCHANGED <<tst, reg, ring, pend, cur, inop, stack, hs, spans, lsets, pushed, futs, cph, ci, batch, cown, active,
                 nid, natt, ncyc, nfl, pc, quiet, a, hist>>

Next ==
  \/ \E t \in Threads : Op(t) \/ Teardown(t)
  \/ \E t \in Threads : Push(t)
  \/ \E t \in Threads : M("spawn") /\ ~ProgDone /\ Spawn(t)
  \/ \E t \in Threads : M("flush") /\ CanStart(t) /\ ~ProgDone /\ Flush(t)
  \/ (~AllQuiet /\ Cyc)
  \/ (~AllQuiet /\ ~ProgDone /\ Reinstall)
  \/ Col
  \/ QuietCycle
  \/ GiveUp

Spec == Init /\ [][Next]_vars

\* C07 at the level of the design: no call waits for anybody (a full queue parks or drops, flush()
\* only waits for a cycle that can always run), so the only states without a successor are the
\* quiescent ones.  Every action consumes a bounded budget, so there are no infinite behaviours and
\* this is all there is to "never block or deadlock" in the model; hangs of the code are found by the
\* harness's watchdog.
NoStuck == (~ENABLED Next) => Done

----------------------------------------------------------------------------
(* what TLC checks *)
CONSTANT Check      \* property ids whose clauses are checked in this instance
Unknown(v) == v.k = None
\* under overload the effects of lost or reordered signals are C09's business as well
Counts(v) == v.p \in Check \/ ("C09" \in Check /\ a.ovl /\ v.p \in {"C01", "C03", "C04", "C08"})
NoViolation == \A i \in DOMAIN a.viol : ~Counts(a.viol[i]) \/ ~Unknown(a.viol[i])
\* the pinned-variant runs expect this to fail: shows the invariant is not vacuous
Clean == a.viol = <<>>

\* behaviours for replay: one line per terminal state
Emit == Done => PrintT(<<"REPLAY", ToJson(hist)>>)
\* one line per explored transition (litmus instances)
Edge == PrintT(<<"EDGE", ToJson(hist')>>)
=============================================================================
