------------------------------- MODULE Abs -------------------------------
(***************************************************************************)
(* The abstract, interface-level meaning of a program over the fastrace    *)
(* span API, and the listed properties C01..C11, C13, C14, C16, C17 as     *)
(* checks evaluated while the events of an execution are consumed.         *)
(*                                                                         *)
(* One operator, AbsStep(a, e), consumes one event e (an API call, an API  *)
(* return, a report() batch, a collector-cycle boundary, a statistics      *)
(* snapshot, a ring push/drain) and returns the next abstract state.  A    *)
(* check that fails appends a record [p, w, d] to a.viol (p = property id, *)
(* w = which clause, d = detail) instead of blocking, so a whole trace is  *)
(* always consumed and every violation in it is reported.                  *)
(*                                                                         *)
(* The module is used twice, verbatim:                                     *)
(*   - Fastrace.tla carries `a` as ghost state; every action feeds the     *)
(*     events it stands for; TLC checks  a.viol = <<>>  as an invariant    *)
(*     over all programs and interleavings of the bounded instance;        *)
(*   - TraceAbs.tla folds AbsStep over the events recorded from the real   *)
(*     implementation.                                                     *)
(* Nothing here refers to implementation structures (rings, span lines,    *)
(* tokens, danglings): names are the caller's, identifiers are learned     *)
(* from what the implementation returns.                                   *)
(***************************************************************************)
EXTENDS Naturals, Sequences, FiniteSets, TLC, SequencesExt

CONSTANTS None,      \* "no value": a model value, so that it compares (unequal) with everything
          Zero       \* the all-zero span id

----------------------------------------------------------------------------
(* generic helpers *)
EmptyFn == [x \in {} |-> None]
Has(f, k) == k \in DOMAIN f
Put(f, k, v) == (k :> v) @@ f
Get(f, k, d) == IF k \in DOMAIN f THEN f[k] ELSE d
Rng(s) == {s[i] : i \in DOMAIN s}
F(e, k) == IF k \in DOMAIN e THEN e[k] ELSE None
\* a failed check; k names the listed known finding the failure is an instance of, if any
ViolK(a, p, w, d, k) == [a EXCEPT !.viol = Append(@, [p |-> p, w |-> w, d |-> d, k |-> k])]
Viol(a, p, w, d) == ViolK(a, p, w, d, None)
Cat(ss) == FlattenSeq(ss)

----------------------------------------------------------------------------
(* State                                                                   *)
(*  cfg   [cancelable, enabled, ready, queue, stack]                        *)
(*  sp    span name -> [noop, lin, cprops, fin]  thread-safe spans          *)
(*        lin: Seq([r, tr, par, smp]) one item per copy the span is entitled*)
(*        to: root instance r (name of the root span), trace tr, parent par *)
(*        (a name, or None for the root itself), sampling decision          *)
(*  rt    root name -> [tr, rpar, smp, st, cid, opt, held, done]            *)
(*  ctx   thread -> Seq(frame)   frame = [k: "lp"|"lc"|"ls", n, live]       *)
(*  sc    scope name (guard / local collector) ->                           *)
(*           [k, h, lin, smp, ents, t]                                      *)
(*        ents: Seq([n, k: "span"|"event"|"props", par, props, open])       *)
(*  ls    collected local-span sets: name -> [ents, t]                      *)
(*  att   span name -> Seq(attachment) made through the handle or through   *)
(*        a local scope directly under the span                             *)
(*        attachment = [k: "p"|"e", key, val, route, t]                     *)
(*  exp   set of records the reporter must still receive                    *)
(*        [n, r, tr, par, must, own, by, due]                               *)
(*  opt   set of records the reporter may receive (same shape)              *)
(*  claims  set of <<name, id>>: which identifier belongs to which span     *)
(*  cyc   snapshot of the due part of exp at the start of the open cycle    *)
(*  fl    thread -> snapshot of the due part of exp at its flush() call     *)
(*  cmds  collect id -> Seq([t, got]) commands in ring-push order           *)
(*  cut   collect ids for which the collector has consumed a command before *)
(*        one that was pushed earlier on another thread (inconsistent cut)  *)
(*  pk    thread -> roots whose finish / cancel signal sits in the thread's *)
(*        overflow list (its queue was full); exc: roots whose parked       *)
(*        signal was dropped when the thread exited with a full queue       *)
(*  ad    adapter name -> [h, kind, done, g, open]: a span bound to a future, *)
(*        stream or sink with in_span(), or an enter_on_poll() adapter      *)
(*  tm    span / event name -> clock brackets of the calls that stamp its     *)
(*        times: [b0, b1] monotonic and [w0, w1] wall clock around the call *)
(*        that starts it, [e0, e1] monotonic around the call that ends it   *)
(*        (only when the events carry clock readings)                       *)
(*  ovl   a queue-full episode has occurred in this run (a submission was     *)
(*        refused or a signal parked): C03 / C04 / C08 failures from then   *)
(*        on are also failures of C09 ("degrades by omission only")         *)
(*  viol  Seq([p, w, d, k])                                                 *)
AbsInit(cfg) ==
  [cfg |-> cfg, sp |-> EmptyFn, rt |-> EmptyFn, ctx |-> EmptyFn, sc |-> EmptyFn, ls |-> EmptyFn,
   att |-> EmptyFn, exp |-> {}, opt |-> {}, dl |-> {}, never |-> {}, claims |-> {}, hints |-> {}, cyc |-> {},
   fl |-> EmptyFn, cmds |-> EmptyFn, cut |-> {}, qs |-> {}, pk |-> EmptyFn, exc |-> {}, got |-> <<>>, gotrecs |-> <<>>, tm |-> EmptyFn, ad |-> EmptyFn, polled |-> EmptyFn, ovl |-> FALSE, free |-> {}, heap |-> None, cbs |-> {}, dur |-> EmptyFn, ovs |-> {}, viol |-> <<>>]

Recording(a) == a.cfg.enabled /\ a.cfg.ready

----------------------------------------------------------------------------
(* Local context of a thread *)
Frames(a, t) == Get(a.ctx, t, <<>>)

\* index of the innermost live scope frame (local parent or local collector), 0 if none
ScopeIdx(fr) == LET S == {i \in DOMAIN fr : fr[i].live /\ fr[i].k \in {"lp", "lc"}} IN
                IF S = {} THEN 0 ELSE CHOOSE i \in S : \A j \in S : j <= i
\* innermost open live local span above that scope, None if none
InnerLocal(fr) == LET si == ScopeIdx(fr)
                      S == {i \in DOMAIN fr : i > si /\ fr[i].live /\ fr[i].k = "ls"} IN
                  IF si = 0 \/ S = {} THEN None ELSE fr[CHOOSE i \in S : \A j \in S : j <= i].n
ScopeOf(a, t) == LET fr == Frames(a, t) si == ScopeIdx(fr) IN IF si = 0 THEN None ELSE fr[si].n
LiveDepth(fr) == Cardinality({i \in DOMAIN fr : fr[i].live /\ fr[i].k \in {"lp", "lc"}})

AnySampled(lin) == \E i \in DOMAIN lin : lin[i].smp

\* The thread's local parent as a context [tr, n, smp], or None:
\* the innermost open local span if there is one, otherwise the span set as local parent;
\* a local collector shadows everything outside it; a scope whose span belongs to no trace has none.
NoCtx == [some |-> FALSE]
LocalCtx(a, t) ==
  LET fr == Frames(a, t) s == ScopeOf(a, t) IN
  IF s = None THEN NoCtx
  ELSE IF a.sc[s].k = "lc" \/ a.sc[s].lin = <<>> THEN NoCtx
  ELSE LET il == InnerLocal(fr) IN
       [some |-> TRUE, tr |-> a.sc[s].lin[1].tr, n |-> IF il = None THEN a.sc[s].h ELSE il, smp |-> a.sc[s].lin[1].smp]

SpanCtx(a, h) ==
  IF ~Has(a.sp, h) \/ a.sp[h].noop \/ a.sp[h].lin = <<>> THEN NoCtx
  ELSE [some |-> TRUE, tr |-> a.sp[h].lin[1].tr, n |-> h, smp |-> a.sp[h].lin[1].smp]

\* lineage a child created under the thread's local context is entitled to
HasLocalParent(a, t) == LET s == ScopeOf(a, t) IN s # None /\ a.sc[s].k = "lp"
LocalLin(a, t) ==
  LET fr == Frames(a, t) s == ScopeOf(a, t)
      il == InnerLocal(fr) p == IF il = None THEN a.sc[s].h ELSE il IN
  [i \in DOMAIN a.sc[s].lin |-> [a.sc[s].lin[i] EXCEPT !.par = p]]

ChildLin(a, ps) ==   \* ps: sequence of parent span names
  Cat([i \in DOMAIN ps |->
        IF Has(a.sp, ps[i]) /\ ~a.sp[ps[i]].noop
        THEN [j \in DOMAIN a.sp[ps[i]].lin |-> [a.sp[ps[i]].lin[j] EXCEPT !.par = ps[i]]]
        ELSE <<>>])

----------------------------------------------------------------------------
(* Expected records *)
PAtt(kv, route, t) == [k |-> "p", key |-> kv[1], val |-> kv[2], route |-> route, t |-> t]
EAtt(ev, route, t) == [k |-> "e", key |-> ev.name, val |-> ev.props, route |-> route, t |-> t]

\* entries of a local-span set that hang directly under entry p (None = top level)
Under(ents, p) == SelectSeq(ents, LAMBDA x : x.par = p)
\* attachments a local span carries itself: its own properties first, then what was attached
\* while it was the innermost open span
OwnAtts(ents, e, t) ==
  [i \in DOMAIN e.props |-> PAtt(e.props[i], "local", t)] \o
  Cat([i \in DOMAIN ents |->
        IF ents[i].par = e.n /\ ents[i].k = "props" THEN [j \in DOMAIN ents[i].props |-> PAtt(ents[i].props[j], "local", t)]
        ELSE IF ents[i].par = e.n /\ ents[i].k = "event" THEN <<EAtt([name |-> ents[i].n, props |-> ents[i].props], "local", t)>>
        ELSE <<>>])
\* attachments made at the top level of a scope: they belong to the scope's span
TopAtts(ents, t) ==
  Cat([i \in DOMAIN ents |->
        IF ents[i].par = None /\ ents[i].k = "props" THEN [j \in DOMAIN ents[i].props |-> PAtt(ents[i].props[j], "local", t)]
        ELSE IF ents[i].par = None /\ ents[i].k = "event" THEN <<EAtt([name |-> ents[i].n, props |-> ents[i].props], "local", t)>>
        ELSE <<>>])

\* the records a set of local-span entries is entitled to when attached under span h with lineage lin
SetRecords(ents, h, lin, t, by, sc) ==
  {[n |-> ents[j].n, r |-> lin[i].r, tr |-> lin[i].tr, ci |-> i, sc |-> sc,
    par |-> IF ents[j].par = None THEN h ELSE ents[j].par,
    must |-> OwnAtts(ents, ents[j], t), own |-> TRUE, by |-> by, due |-> FALSE] :
     i \in {x \in DOMAIN lin : lin[x].smp}, j \in {y \in DOMAIN ents : ents[y].k = "span"}}

RootOpen(a, r) == Has(a.rt, r) /\ a.rt[r].st = "open"

\* records of thread-safe span h at its finish call.  Attachments completed before now are owed on
\* every copy whose root has not finished yet (C06's provisos); the span's own properties always.
SpanRecords(a, h, by) ==
  LET s == a.sp[h]
      own == [i \in DOMAIN s.cprops |-> PAtt(s.cprops[i], "creation", by)]
      atts == Get(a.att, h, <<>>) IN
  {[n |-> h, r |-> s.lin[i].r, tr |-> s.lin[i].tr, ci |-> i, sc |-> None, par |-> s.lin[i].par,
    must |-> IF RootOpen(a, s.lin[i].r) \/ s.lin[i].r = h THEN own \o atts ELSE own,
    own |-> FALSE, by |-> by, due |-> FALSE] : i \in {x \in DOMAIN s.lin : s.lin[x].smp}}

\* In cancelable mode a record of a trace whose root has already finished may only ride along in
\* the root's batch; it is never owed.  A trace whose start was refused by a full queue is optional
\* as a whole in that mode.
Owed(a, e) == IF a.cfg.cancelable THEN RootOpen(a, e.r) /\ ~a.rt[e.r].opt ELSE TRUE

Entitle(a, recs) ==
  LET live == {e \in recs : Has(a.rt, e.r) /\ a.rt[e.r].st # "canc"} IN
  [a EXCEPT !.exp = @ \cup {e \in live : Owed(a, e)},
            !.opt = @ \cup {e \in live : ~Owed(a, e)},
            !.never = @ \cup {[n |-> e.n, tr |-> e.tr, r |-> e.r, p |-> "C04"] : e \in recs \ live}]
\* copies in unsampled traces must never show up (C05)
Unsampled(a, names, lin) ==
  [a EXCEPT !.never = @ \cup {[n |-> n, tr |-> lin[i].tr, r |-> lin[i].r, p |-> "C05"] : n \in names, i \in {x \in DOMAIN lin : ~lin[x].smp}}]
SpanNames(ents) == {ents[j].n : j \in {y \in DOMAIN ents : ents[y].k = "span"}}

\* at the return of the call made by thread t: what it entitled becomes due, or optional when one of
\* its submissions was refused by a full queue
Settle(a, t, refused) ==
  LET mine == {e \in a.exp : e.by = t /\ ~e.due} IN
  IF refused
  THEN [a EXCEPT !.exp = @ \ mine, !.opt = @ \cup mine]
  ELSE [a EXCEPT !.exp = (@ \ mine) \cup {[e EXCEPT !.due = TRUE] : e \in mine}]

----------------------------------------------------------------------------
(* Clock brackets (C18).  Every call event carries the monotonic clock m and the wall clock w read *)
(* just before the call, every return event the readings just after.  Times are integers in one   *)
(* unit (microseconds in recorded traces, logical ticks in the model).                            *)
Timed(e) == "m" \in DOMAIN e
TolM(a) == a.cfg.tolm    \* slack on monotonic differences
TolW(a) == a.cfg.tolw    \* slack on wall-clock readings (clock anchor of the conversion)
NoTm == [b0 |-> None, b1 |-> None, w0 |-> None, w1 |-> None, e0 |-> None, e1 |-> None]
TmBegin(a, n, e) == IF Timed(e) THEN [a EXCEPT !.tm = Put(@, n, [NoTm EXCEPT !.b0 = e.m, !.w0 = e.w])] ELSE a
TmBegun(a, n, e) == IF Timed(e) /\ Has(a.tm, n) /\ a.tm[n].b1 = None THEN [a EXCEPT !.tm[n].b1 = e.m, !.tm[n].w1 = e.w] ELSE a
TmEnd(a, n, e) == IF Timed(e) /\ Has(a.tm, n) /\ a.tm[n].e0 = None THEN [a EXCEPT !.tm[n].e0 = e.m] ELSE a
TmEnded(a, n, e) == IF Timed(e) /\ Has(a.tm, n) /\ a.tm[n].e0 # None /\ a.tm[n].e1 = None THEN [a EXCEPT !.tm[n].e1 = e.m] ELSE a
\* local spans of a scope that are still open end when the scope is closed / collected
OpenIn(a, s) == {a.sc[s].ents[i].n : i \in {j \in DOMAIN a.sc[s].ents : a.sc[s].ents[j].k = "span" /\ a.sc[s].ents[j].open}}
RECURSIVE TmAll(_, _, _, _)
TmAll(a, names, e, ended) ==
  IF names = {} THEN a
  ELSE LET n == CHOOSE x \in names : TRUE IN
       TmAll(IF ended THEN TmEnded(a, n, e) ELSE TmEnd(a, n, e), names \ {n}, e, ended)

\* a delivered record against the brackets of its span
TimeBad(a, rec) ==
  IF ~("b" \in DOMAIN rec) \/ ~Has(a.tm, rec.name) THEN "ok"
  ELSE LET t == a.tm[rec.name] pct == rec.d \div 100 IN
       IF t.b1 # None /\ (rec.b + TolW(a) < t.w0 \/ rec.b > t.w1 + TolW(a)) THEN "begin-outside-its-call"
       ELSE IF t.b1 # None /\ t.e0 # None /\ rec.d + TolM(a) + pct < t.e0 - t.b1 THEN "duration-too-short"
       ELSE IF t.e1 # None /\ rec.d > t.e1 - t.b0 + TolM(a) + pct THEN "duration-too-long"
       ELSE IF \E i \in DOMAIN rec.events :
                 LET ev == rec.events[i] IN
                 "ts" \in DOMAIN ev /\ Has(a.tm, ev.name) /\ a.tm[ev.name].w1 # None /\
                 (ev.ts + TolW(a) < a.tm[ev.name].w0 \/ ev.ts > a.tm[ev.name].w1 + TolW(a)) THEN "event-time-outside-its-call"
       ELSE "ok"

\* local spans of one batch: a child's interval lies in its parent's, siblings do not overlap,
\* events lie in the span they were recorded in (same clock anchor, so no tolerance beyond rounding)
NestBad(a, got, recs) ==
  LET idx == {i \in DOMAIN recs : "b" \in DOMAIN recs[i]}
      loc(i) == got[i].own
      sameCopy(i, j) == got[i].r = got[j].r /\ got[i].ci = got[j].ci
      child(i, j) == loc(i) /\ loc(j) /\ sameCopy(i, j) /\ got[i].par = got[j].n        \* i is a child of j
      sib(i, j) == i # j /\ loc(i) /\ loc(j) /\ sameCopy(i, j) /\ got[i].par = got[j].par /\ got[i].sc = got[j].sc
      R == 2 IN
  IF \E i, j \in idx : child(i, j) /\ (recs[i].b + R < recs[j].b \/ recs[i].b + recs[i].d > recs[j].b + recs[j].d + R) THEN "child-outside-parent"
  ELSE IF \E i, j \in idx : sib(i, j) /\ recs[i].b <= recs[j].b /\ recs[i].b + recs[i].d > recs[j].b + R /\ recs[j].d > 0 /\ recs[i].d > R THEN "siblings-overlap"
  ELSE IF \E i \in idx : loc(i) /\ \E k \in DOMAIN recs[i].events :
            "ts" \in DOMAIN recs[i].events[k] /\ (recs[i].events[k].ts + R < recs[i].b \/ recs[i].events[k].ts > recs[i].b + recs[i].d + R) THEN "event-outside-span"
  ELSE "ok"

----------------------------------------------------------------------------
(* API events *)

NewSpan(a, h, lin, noop) == [a EXCEPT !.sp = Put(@, h, [noop |-> noop, lin |-> lin, cprops |-> <<>>, fin |-> FALSE, via |-> "handle"])]

\* identifiers the implementation reveals (contexts) are checked against the names they must denote
Claim(a, p, n, id) ==
  IF id = None \/ n = None THEN a
  ELSE IF id = Zero THEN Viol(a, p, "zero-id", n)
  ELSE IF \E c \in a.claims : (c[1] = n /\ c[2] # id) \/ (c[1] # n /\ c[2] = id)
       THEN Viol(a, p, "id-mismatch", <<n, id>>)
       ELSE [a EXCEPT !.claims = @ \cup {<<n, id>>}]
Hint(a, n, id) == IF id = None THEN a ELSE [a EXCEPT !.hints = {c \in @ : c[1] # n} \cup {<<n, id>>}]

\* ps: the properties the answer belongs to (a local-context query: C10 and C11; a wrong
\* sampling flag is also C05's business)
RECURSIVE ViolAll(_, _, _, _)
ViolAll(a, ps, w, d) == IF ps = <<>> THEN a ELSE ViolAll(Viol(a, Head(ps), w, d), Tail(ps), w, d)
CheckCtxs(a, ps, want, got) ==   \* want: [some, tr, n, smp]   got: [some, tr, id, smp]
  IF ~want.some
  THEN IF ~got.some THEN a ELSE ViolAll(a, ps, "ctx-should-be-none", got)
  ELSE IF ~got.some THEN ViolAll(a, ps, "ctx-missing", want)
       ELSE LET a1 == IF got.tr # want.tr THEN ViolAll(a, ps, "ctx-wrong-trace", <<want, got>>) ELSE a
                a2 == IF got.smp # want.smp THEN ViolAll(a1, ps \o <<"C05">>, "ctx-wrong-sampled-flag", <<want, got>>) ELSE a1
            IN Claim(a2, Head(ps), want.n, got.id)
CheckCtx(a, p, want, got) == CheckCtxs(a, <<p>>, want, got)

CallRoot(a, e) ==
  LET rec == Recording(a) IN
  [NewSpan(a, e.h, IF rec THEN <<[r |-> e.h, tr |-> e.tr, par |-> None, smp |-> e.smp]>> ELSE <<>>, ~rec)
     EXCEPT !.rt = IF rec THEN Put(@, e.h, [tr |-> e.tr, rpar |-> e.rpar, smp |-> e.smp, st |-> "open", cid |-> None,
                                            opt |-> FALSE, mem |-> {}, done |-> FALSE, ret |-> FALSE, dcancel |-> FALSE])
                   ELSE @]

RetRoot(a, e) ==
  LET refused == F(e, "refused") = TRUE
      a1 == IF Has(a.rt, e.h)
            THEN [a EXCEPT !.rt[e.h].cid = F(e, "cid"), !.rt[e.h].opt = (refused /\ a.cfg.cancelable),
                           !.qs = IF refused /\ ~a.cfg.cancelable THEN @ \cup {e.h} ELSE @]
            ELSE a IN
  Hint(a1, e.h, F(e, "id"))

\* a root made from an extracted context: the context must be the one the source denotes (C11),
\* the root then continues that trace under that span
CallRootCtx(a, e) ==
  IF e.ctx.some /\ Recording(a)
  THEN [NewSpan(a, e.h, <<[r |-> e.h, tr |-> e.ctx.tr, par |-> None, smp |-> e.ctx.smp]>>, FALSE)
          EXCEPT !.rt = Put(@, e.h, [tr |-> e.ctx.tr, rpar |-> e.ctx.id, smp |-> e.ctx.smp, st |-> "open", cid |-> None,
                                     opt |-> FALSE, mem |-> {}, done |-> FALSE, ret |-> FALSE, dcancel |-> FALSE])]
  ELSE NewSpan(a, e.h, <<>>, TRUE)
RetRootCtx(a, e) ==
  LET want == IF F(e, "src") = None THEN LocalCtx(a, e.t) ELSE SpanCtx(a, e.src) IN
  RetRoot(CallRootCtx(CheckCtx(a, "C11", want, e.ctx), e), e)

CallChild(a, e) ==
  LET lin == ChildLin(a, e.ps)
      \* enter_with_parent on a no-op span is a no-op; with an explicit parent list the span exists
      \* even when every parent is a no-op, but belongs to no trace
      noop == ~a.cfg.enabled \/ (~e.multi /\ (~Has(a.sp, e.ps[1]) \/ a.sp[e.ps[1]].noop)) IN
  NewSpan(a, e.h, IF noop THEN <<>> ELSE lin, noop)

CallChildLocal(a, e) ==
  LET a1 == IF HasLocalParent(a, e.t) THEN NewSpan(a, e.h, LocalLin(a, e.t), FALSE) ELSE NewSpan(a, e.h, <<>>, TRUE) IN
  [a1 EXCEPT !.sp[e.h].via = "local"]

CallSetLp(a, e) ==
  LET fr == Frames(a, e.t)
      live == Has(a.sp, e.h) /\ ~a.sp[e.h].noop /\ LiveDepth(fr) < a.cfg.stack
      lin == IF live THEN [i \in DOMAIN a.sp[e.h].lin |-> [a.sp[e.h].lin[i] EXCEPT !.par = e.h]] ELSE <<>> IN
  \* a scope refused because too many are nested is overload as well (C09): what the thread records from
  \* now on must still be right
  [a EXCEPT !.ctx = Put(@, e.t, Append(fr, [k |-> "lp", n |-> e.g, live |-> live])),
            !.sc = Put(@, e.g, [k |-> "lp", h |-> e.h, lin |-> lin, smp |-> AnySampled(lin), ents |-> <<>>, t |-> e.t]),
            !.ovl = @ \/ (Has(a.sp, e.h) /\ ~a.sp[e.h].noop /\ LiveDepth(fr) >= a.cfg.stack)]

PopFrame(a, t) == [a EXCEPT !.ctx = Put(@, t, Front(Frames(a, t)))]
TopFrame(a, t) == Last(Frames(a, t))

\* closing a local-parent scope: its local spans become deliverable under the scope's span, the
\* attachments made directly in the scope are now complete attachments of that span
\* closing a scope while local spans recorded in it are still open: they are closed with it (their
\* handles become inert); position of the scope's frame, 0 if it is not there
FrameOf(fr, n) == LET S == {i \in DOMAIN fr : fr[i].n = n /\ fr[i].k \in {"lp", "lc"}} IN IF S = {} THEN 0 ELSE CHOOSE i \in S : TRUE
OnlyLocalsAbove(fr, i) == \A j \in (i + 1)..Len(fr) : fr[j].k = "ls"
CutFrames(a, t, i) == [a EXCEPT !.ctx = Put(@, t, SubSeq(Frames(a, t), 1, i - 1))]

CallDropGuard(a, e) ==
  LET fr == Frames(a, e.t) i == FrameOf(fr, e.g) IN
  IF i = 0 \/ ~OnlyLocalsAbove(fr, i) THEN Viol(a, "HARNESS", "ill-nested-guard", e)
  ELSE LET s == a.sc[e.g] a1 == CutFrames(a, e.t, i) IN
       IF ~fr[i].live \/ ~s.smp THEN a1
       ELSE LET a2 == [a1 EXCEPT !.att = Put(@, s.h, Get(@, s.h, <<>>) \o TopAtts(s.ents, e.t))] IN
            Unsampled(Entitle(a2, SetRecords(s.ents, s.h, s.lin, e.t, e.t, e.g)), SpanNames(s.ents), s.lin)

CallLcStart(a, e) ==
  LET fr == Frames(a, e.t) live == a.cfg.enabled /\ LiveDepth(fr) < a.cfg.stack IN
  [a EXCEPT !.ctx = Put(@, e.t, Append(fr, [k |-> "lc", n |-> e.c, live |-> live])),
            !.sc = Put(@, e.c, [k |-> "lc", h |-> None, lin |-> <<>>, smp |-> TRUE, ents |-> <<>>, t |-> e.t]),
            !.ovl = @ \/ (a.cfg.enabled /\ LiveDepth(fr) >= a.cfg.stack)]

CallLcCollect(a, e) ==
  LET fr == Frames(a, e.t) i == FrameOf(fr, e.c) IN
  IF i = 0 \/ ~OnlyLocalsAbove(fr, i) THEN Viol(a, "HARNESS", "ill-nested-collector", e)
  ELSE [CutFrames(a, e.t, i) EXCEPT !.ls = Put(@, e.ls, [ents |-> IF fr[i].live THEN a.sc[e.c].ents ELSE <<>>, t |-> e.t, over |-> e.c \in a.ovs])]

CallLcDrop(a, e) ==
  LET fr == Frames(a, e.t) i == FrameOf(fr, e.c) IN
  IF i = 0 \/ ~OnlyLocalsAbove(fr, i) THEN Viol(a, "HARNESS", "ill-nested-collector", e)
  ELSE CutFrames(a, e.t, i)

\* can the innermost scope of t record one more entry?
CanRecord(a, t) == LET s == ScopeOf(a, t) IN s # None /\ a.sc[s].smp /\ Len(a.sc[s].ents) < a.cfg.queue
ScopeSampled(a, t) == LET s == ScopeOf(a, t) IN s # None /\ a.sc[s].smp
AddEnt(a, t, ent) == LET s == ScopeOf(a, t) IN [a EXCEPT !.sc[s].ents = Append(@, ent)]
\* scopes (and the sets collected from them) that have had to skip something: what they did record
\* must still be right, and if it is not, that is C09's business too
OverLimit(a, t) == ScopeSampled(a, t) /\ Len(a.sc[ScopeOf(a, t)].ents) >= a.cfg.queue
MarkOver(a, t) == IF OverLimit(a, t) THEN [a EXCEPT !.ovs = @ \cup {ScopeOf(a, t)}] ELSE a
WasOver(a, sc) == sc \in a.ovs \/ (Has(a.ls, sc) /\ a.ls[sc].over)

CallLEnter(a, e) ==
  LET fr == Frames(a, e.t) ok == CanRecord(a, e.t)
      a1 == IF ok THEN AddEnt(a, e.t, [n |-> e.l, k |-> "span", par |-> InnerLocal(fr), props |-> <<>>, open |-> TRUE]) ELSE MarkOver(a, e.t) IN
  [a1 EXCEPT !.ctx = Put(@, e.t, Append(fr, [k |-> "ls", n |-> e.l, live |-> ok]))]

CallLExit(a, e) ==
  LET fr == Frames(a, e.t) IN
  IF ~\E i \in DOMAIN fr : fr[i].n = e.l THEN a      \* its scope was closed with the span still open: the handle is inert
  ELSE IF TopFrame(a, e.t).n # e.l THEN Viol(a, "HARNESS", "ill-nested-local-span", e)
  ELSE LET a1 == PopFrame(a, e.t) s == ScopeOf(a, e.t) IN
       IF ~TopFrame(a, e.t).live THEN a1
       ELSE [a1 EXCEPT !.sc[s].ents = [i \in DOMAIN @ |-> IF @[i].n = e.l /\ @[i].k = "span" THEN [@[i] EXCEPT !.open = FALSE] ELSE @[i]]]

CallLEvent(a, e) ==
  IF CanRecord(a, e.t)
  THEN AddEnt(a, e.t, [n |-> e.evt.name, k |-> "event", par |-> InnerLocal(Frames(a, e.t)), props |-> e.evt.props, open |-> FALSE])
  ELSE MarkOver(a, e.t)
CallLProps(a, e) ==
  IF CanRecord(a, e.t)
  THEN AddEnt(a, e.t, [n |-> None, k |-> "props", par |-> InnerLocal(Frames(a, e.t)), props |-> e.kvs, open |-> FALSE])
  ELSE MarkOver(a, e.t)
LocalLive(a, t, l) == \E i \in DOMAIN Frames(a, t) : Frames(a, t)[i].k = "ls" /\ Frames(a, t)[i].n = l /\ Frames(a, t)[i].live
CallLWith(a, e) ==
  IF LocalLive(a, e.t, e.l)
  THEN LET S == {s \in DOMAIN a.sc : \E i \in DOMAIN a.sc[s].ents : a.sc[s].ents[i].n = e.l /\ a.sc[s].ents[i].k = "span"}
           s == CHOOSE s \in S : TRUE IN
       [a EXCEPT !.sc[s].ents = [i \in DOMAIN @ |-> IF @[i].n = e.l /\ @[i].k = "span" THEN [@[i] EXCEPT !.props = @ \o e.kvs] ELSE @[i]]]
  ELSE a

\* closure laziness (C16): the property closure runs iff the target records; beyond the per-scope
\* limit the call is skipped either way and the count is not constrained
WantCC(a, e) ==
  CASE e.op = "lprops" -> IF ScopeSampled(a, e.t) THEN IF CanRecord(a, e.t) THEN 1 ELSE None ELSE 0
    [] e.op = "lwith"  -> IF LocalLive(a, e.t, e.l) THEN 1 ELSE 0
    \* an Event is built before it is attached: its properties closure runs exactly once, unless
    \* tracing is compiled out
    [] e.op \in {"levent", "sevent"} -> IF a.cfg.enabled THEN 1 ELSE 0
    [] e.op \in {"sprops", "swith"} ->
         IF ~Has(a.sp, e.h) \/ a.sp[e.h].noop \/ a.sp[e.h].fin THEN 0 ELSE IF a.sp[e.h].lin = <<>> THEN None ELSE 1
    [] OTHER -> None

SpanLive(a, h) == Has(a.sp, h) /\ ~a.sp[h].noop /\ ~a.sp[h].fin
CallSWith(a, e) == IF SpanLive(a, e.h) THEN [a EXCEPT !.sp[e.h].cprops = @ \o e.kvs] ELSE a
\* attachments through the handle are complete when the call returns
RetSProps(a, e) ==
  IF SpanLive(a, e.h) /\ AnySampled(a.sp[e.h].lin)
  THEN IF F(e, "refused") = TRUE THEN a
       ELSE [a EXCEPT !.att = Put(@, e.h, Get(@, e.h, <<>>) \o [i \in DOMAIN e.kvs |-> PAtt(e.kvs[i], "handle", e.t)])]
  ELSE a
RetSEvent(a, e) ==
  IF SpanLive(a, e.h) /\ AnySampled(a.sp[e.h].lin)
  THEN IF F(e, "refused") = TRUE THEN a
       ELSE [a EXCEPT !.att = Put(@, e.h, Get(@, e.h, <<>>) \o <<EAtt(e.evt, "handle", e.t)>>)]
  ELSE a

CallPushChild(a, e) ==
  IF SpanLive(a, e.h) /\ Has(a.ls, e.ls)
  THEN LET s == a.ls[e.ls]
           lin == [i \in DOMAIN a.sp[e.h].lin |-> [a.sp[e.h].lin[i] EXCEPT !.par = e.h]]
           a1 == IF AnySampled(lin) THEN [a EXCEPT !.att = Put(@, e.h, Get(@, e.h, <<>>) \o TopAtts(s.ents, s.t))] ELSE a IN
       Unsampled(Entitle(a1, SetRecords(s.ents, e.h, lin, s.t, e.t, e.ls)), SpanNames(s.ents), lin)
  ELSE a

\* finishing a thread-safe span
CallDrop(a, e) ==
  IF ~SpanLive(a, e.h) THEN IF Has(a.sp, e.h) THEN [a EXCEPT !.sp[e.h].fin = TRUE] ELSE a
  ELSE LET a1 == Unsampled(Entitle(a, SpanRecords(a, e.h, e.t)), {e.h}, a.sp[e.h].lin)
           a2 == [a1 EXCEPT !.sp[e.h].fin = TRUE] IN
       IF Has(a.rt, e.h) /\ a.rt[e.h].st = "open"
       THEN \* root finish: in cancelable mode everything of the trace that is due now must come with it
            [a2 EXCEPT !.rt[e.h].st = "fin",
                       !.rt[e.h].mem = {[n |-> x.n, par |-> x.par, ci |-> x.ci] : x \in {y \in a1.exp : y.r = e.h /\ (y.due \/ y.n = e.h)}}]
       ELSE a2

CallCancel(a, e) ==
  IF ~a.cfg.cancelable /\ SpanLive(a, e.h) /\ Has(a.rt, e.h) THEN [a EXCEPT !.rt[e.h].dcancel = TRUE]
  ELSE IF a.cfg.cancelable /\ SpanLive(a, e.h) /\ Has(a.rt, e.h) /\ a.rt[e.h].st = "open" /\ a.rt[e.h].smp
  THEN [a EXCEPT !.rt[e.h].st = "canc",
                 !.never = @ \cup {[n |-> x.n, tr |-> x.tr, r |-> x.r, p |-> "C04"] : x \in {y \in a.exp \cup a.opt : y.r = e.h}},
                 !.exp = {x \in @ : x.r # e.h}, !.opt = {x \in @ : x.r # e.h}]
  ELSE a

----------------------------------------------------------------------------
(* Adapters (C13, C14).  in_span(span): during every poll the span is the local parent and the     *)
(* previous context is back afterwards; the span finishes exactly when the inner future / stream / *)
(* sink completes (or the adapter is dropped), and what was recorded under it in that last call is *)
(* part of its trace.  enter_on_poll(name): one local span per poll.                               *)
(* The scripted inner future reports `pollend` right before it returns: from then on the adapter's *)
(* own epilogue (scope closed, span finished) may already be visible to the collector.             *)
\* which property a span bound to an adapter belongs to (the span of in_span, the per-poll spans of enter_on_poll)
AdProp(a, n) == IF \E f \in DOMAIN a.ad : a.ad[f].h = n
                THEN IF a.ad[CHOOSE f \in DOMAIN a.ad : a.ad[f].h = n].kind = "fut" THEN "C13" ELSE "C14"
                ELSE IF \E f \in DOMAIN a.ad : n \in a.ad[f].gs THEN "C13"
                ELSE None
CallFNew(a, e) == [a EXCEPT !.ad = Put(@, e.f, [h |-> F(e, "h"), kind |-> e.kind, done |-> FALSE, g |-> None, open |-> FALSE, finby |-> None, gs |-> {}])]
CallFPoll(a0, e) ==
  LET d == a0.ad[e.f]
      a == [a0 EXCEPT !.polled = Put(@, e.t, d.kind)] IN
  IF d.kind = "eop"
  THEN [CallLEnter(a, [t |-> e.t, l |-> e.g]) EXCEPT !.ad[e.f].g = e.g, !.ad[e.f].open = TRUE, !.ad[e.f].gs = @ \cup {e.g}]
  ELSE IF d.done THEN a
  ELSE [CallSetLp(a, [t |-> e.t, g |-> e.g, h |-> d.h]) EXCEPT !.ad[e.f].g = e.g, !.ad[e.f].open = TRUE]
\* a span the scripted inner future holds is finished when the inner completes or is dropped, which is
\* before the adapter's own span finishes
HeldDrop(a, e) == IF Has(e, "held") THEN CallDrop(a, [t |-> e.t, h |-> e.held]) ELSE a
CallPollEnd(a0, e) ==
  LET a == HeldDrop(a0, e) d == a.ad[e.f] IN
  IF ~d.open THEN a
  ELSE IF d.kind = "eop" THEN [CallLExit(a, [t |-> e.t, l |-> d.g]) EXCEPT !.ad[e.f].open = FALSE]
  ELSE LET a1 == [CallDropGuard(a, [t |-> e.t, g |-> d.g]) EXCEPT !.ad[e.f].open = FALSE]
           \* what the last call recorded under the span counts as finished before the span
           mine == {x \in a1.exp : x.by = e.t /\ ~x.due}
           a2 == [a1 EXCEPT !.exp = (@ \ mine) \cup {[x EXCEPT !.due = TRUE] : x \in mine}] IN
       IF e.fin /\ ~d.done THEN [CallDrop(a2, [t |-> e.t, h |-> d.h]) EXCEPT !.ad[e.f].done = TRUE, !.ad[e.f].finby = e.t] ELSE a2
RetFPoll(a, e) ==
  LET d == a.ad[e.f] IN
  IF d.done /\ d.finby = e.t /\ d.h # None /\ Has(a.rt, d.h) THEN [a EXCEPT !.rt[d.h].ret = TRUE] ELSE a
CallFDrop(a0, e) ==
  LET a1 == HeldDrop(a0, e)
      \* ... and its record counts as finished before the span
      mine == {x \in a1.exp : x.by = e.t /\ ~x.due}
      a == [a1 EXCEPT !.exp = (@ \ mine) \cup {[x EXCEPT !.due = TRUE] : x \in mine}]
      d == a.ad[e.f] IN
  IF d.kind = "eop" \/ d.done THEN a ELSE [CallDrop(a, [t |-> e.t, h |-> d.h]) EXCEPT !.ad[e.f].done = TRUE, !.ad[e.f].finby = e.t]
RetFDrop(a, e) ==
  LET d == a.ad[e.f] IN
  IF d.done /\ d.finby = e.t /\ d.h # None /\ Has(a.rt, d.h) THEN [a EXCEPT !.rt[d.h].ret = TRUE] ELSE a

\* overflow bookkeeping: a forced signal (finish / cancel of a root) that found the queue full is
\* parked; it is pushed, in order, by the thread's later calls or at its exit; at exit with a full
\* queue it is dropped (the guarantee of C09 ends with the thread)
Parked(a, e) ==
  LET n == F(e, "parked")
      mine == Get(a.pk, e.t, {})
      isSig == e.op \in {"drop", "cancel"} /\ Has(a.rt, e.h)
      a1 == IF e.op = "exit"
            THEN [a EXCEPT !.pk = Put(@, e.t, {}), !.exc = IF F(e, "dropped") = TRUE THEN @ \cup mine ELSE @]
            ELSE IF n = None THEN a
            ELSE IF n = 0 THEN [a EXCEPT !.pk = Put(@, e.t, {})]
            ELSE IF isSig THEN [a EXCEPT !.pk = Put(@, e.t, mine \cup {e.h})] ELSE a IN
  [a1 EXCEPT !.ovl = @ \/ F(e, "refused") = TRUE \/ F(e, "dropped") = TRUE \/ (n # None /\ n > 0)]
AllParked(a) == UNION {a.pk[t] : t \in DOMAIN a.pk} \cup a.exc

\* what the next collector cycle must deliver: in cancelable mode a trace is owed once its root's
\* finish has returned (and its finish signal is not parked behind a full queue)
DueNow(a) == {x \in a.exp : x.due /\ (a.cfg.cancelable => a.rt[x.r].st = "fin" /\ a.rt[x.r].ret /\ x.r \notin AllParked(a))}

\* a copy of a span that is entitled to several (one per parent): its absence is also a C02 matter
MultiCopy(a, x) == \E y \in a.exp \cup a.opt \cup a.dl : y.n = x.n /\ (y.r # x.r \/ y.ci # x.ci)
CopyMissing(a, st, late) ==
  LET m == {x \in late : MultiCopy(a, x)}
      \* a copy of a captured set that was pushed under a parent: C17's "one subtree under each parent"
      \* (when the trace is cut the loss is the listed cut finding of C01 / C03, not a matter of the set)
      ps == {x \in late : x.own /\ Has(a.ls, x.sc) /\ a.rt[x.r].cid \notin a.cut}
      st1 == IF m # {} THEN ViolK(st, "C02", "copy-missing", {[n |-> x.n, r |-> x.r, par |-> x.par] : x \in m},
                                  IF \A x \in m : a.rt[x.r].cid \in a.cut THEN "cut" ELSE None)
             ELSE st
      st2 == IF ps # {} THEN Viol(st1, "C17", "pushed-set-copy-missing", {[n |-> x.n, r |-> x.r, par |-> x.par] : x \in ps}) ELSE st1
      \* default configuration: cancel() is a no-op - what the trace records afterwards arrives all the same (C04)
      dc == {x \in late : a.rt[x.r].dcancel /\ a.rt[x.r].cid \notin a.cut} IN
  IF dc # {} THEN Viol(st2, "C04", "lost-after-cancel-in-the-default-configuration", {[n |-> x.n, r |-> x.r] : x \in dc})
  ELSE st2

CallFlush(a, e) == [a EXCEPT !.fl = Put(@, e.t, DueNow(a))]
RetFlush(a, e) ==
  LET late == Get(a.fl, e.t, {}) \cap a.exp IN
  IF a.cfg.enabled /\ late # {}
  THEN CopyMissing(a, ViolK(a, IF a.cfg.cancelable THEN "C03" ELSE "C01", "not-delivered-by-flush", {[n |-> x.n, r |-> x.r] : x \in late},
                               IF \A x \in late : a.rt[x.r].cid \in a.cut THEN "cut" ELSE None), late)
  ELSE a

\* local context must be what the abstract scopes say (C10), with the right identifiers (C11)
\* on a thread that polls adapters the local context is the adapters' business (C13 / C14)
RetCtxLocal(a, e) ==
  CheckCtxs(a, <<IF Has(a.polled, e.t) THEN (IF a.polled[e.t] \in {"fut", "eop"} THEN "C13" ELSE "C14") ELSE "C10", "C11">>, LocalCtx(a, e.t), e.ctx)
RetCtxSpan(a, e) == CheckCtx(a, "C11", SpanCtx(a, e.h), e.ctx)
RetLEnter(a, e) == IF LocalLive(a, e.t, e.l) THEN Hint(a, e.l, F(e, "id")) ELSE a
RetSpanId(a, e) == IF Has(a.sp, e.h) /\ ~a.sp[e.h].noop /\ a.sp[e.h].lin # <<>> THEN Hint(a, e.h, F(e, "id")) ELSE a

RetClosure(a, e) ==
  LET w == WantCC(a, e) IN
  IF w # None /\ Has(e, "cc") /\ e.cc # w THEN Viol(a, "C16", "closure-calls", <<e.op, w, e.cc>>) ELSE a

RetElapsed(a, e) ==
  LET want == Has(a.sp, e.h) /\ ~a.sp[e.h].noop
      a1 == IF want # e.some THEN Viol(a, IF a.cfg.enabled THEN "C18" ELSE "C16", "elapsed-some", <<e.h, want, e.some>>) ELSE a IN
  IF want /\ e.some /\ Timed(e) /\ Has(a.tm, e.h) /\ a.tm[e.h].b1 # None
  THEN LET t == a.tm[e.h] lo == e.m0 - t.b1 hi == e.m - t.b0 IN
       IF e.us + TolM(a) + e.us \div 100 < lo \/ e.us > hi + TolM(a) + e.us \div 100 THEN Viol(a1, "C18", "elapsed-value", <<e.h, e.us, lo, hi>>) ELSE a1
  ELSE a1

----------------------------------------------------------------------------
(* report(batch) *)

\* does the record's content match what the copy is owed?  (C06)
\* allowed: everything that was ever attached to the span; owed: e.must; order within one
\* route and thread as attached
AllAtts(a, e) == IF e.own THEN e.must ELSE e.must \o SelectSeq(Get(a.att, e.n, <<>>), LAMBDA x : x \notin Rng(e.must))
RecAtts(rec) == [i \in DOMAIN rec.props |-> [k |-> "p", key |-> rec.props[i][1], val |-> rec.props[i][2]]] \o
                [i \in DOMAIN rec.events |-> [k |-> "e", key |-> rec.events[i].name, val |-> rec.events[i].props]]
Strip(x) == [k |-> x.k, key |-> x.key, val |-> x.val]
ContentBad(a, e, rec) ==
  LET got == RecAtts(rec)
      all == AllAtts(a, e)
      allS == {Strip(x) : x \in Rng(all)}
      classes == {<<x.k, x.route, x.t>> : x \in Rng(e.must)}
      \* the owed attachments of one class, in order, and what the record shows of that class
      inClass(c) == SelectSeq(e.must, LAMBDA x : <<x.k, x.route, x.t>> = c)
      keysOf(c) == {x.key : x \in Rng(inClass(c))}
      gotClass(c) == SelectSeq(got, LAMBDA g : g.k = c[1] /\ g.key \in keysOf(c)) IN
  IF \E i \in DOMAIN got : got[i] \notin allS THEN "foreign-attachment"
  ELSE IF \E i, j \in DOMAIN got : i # j /\ got[i].k = got[j].k /\ got[i].key = got[j].key THEN "duplicate-attachment"
  ELSE IF \E x \in Rng(e.must) : Strip(x) \notin Rng(got) THEN "missing-attachment"
  ELSE IF \E c \in classes : gotClass(c) # [i \in DOMAIN inClass(c) |-> Strip(inClass(c)[i])] THEN "attachment-order"
  ELSE "ok"

\* a local span's record shows something that was attached through the local context while ANOTHER entry of
\* its scope (or the scope's span itself) was the innermost one: "where subsequent local properties and
\* events attach" (C10) was not what it had to be
LocalForeign(a, e, rec) ==
  /\ e.own
  /\ LET ents == IF Has(a.ls, e.sc) THEN a.ls[e.sc].ents ELSE IF Has(a.sc, e.sc) THEN a.sc[e.sc].ents ELSE <<>>
         got == RecAtts(rec) IN
     \E i \in DOMAIN got, j \in DOMAIN ents :
        /\ ents[j].par # e.n /\ ents[j].n # e.n
        /\ \/ ents[j].k = "props" /\ got[i].k = "p" /\ \E q \in DOMAIN ents[j].props : ents[j].props[q][1] = got[i].key
           \/ ents[j].k = "event" /\ got[i].k = "e" /\ got[i].key = ents[j].n

IdOf(a, n) == IF \E c \in a.claims : c[1] = n THEN (CHOOSE c \in a.claims : c[1] = n)[2]
              ELSE IF \E c \in a.hints : c[1] = n THEN (CHOOSE c \in a.hints : c[1] = n)[2] ELSE None

\* records still expected or optional with the delivered record's name and trace
Cands(a, rec) == {e \in a.exp \cup a.opt : e.n = rec.name /\ e.tr = rec.trace}
ParentFits(a, e, rec) == IF e.par = None THEN a.rt[e.r].rpar = rec.parent ELSE IdOf(a, e.par) = rec.parent
ParentOpen(a, e) == e.par # None /\ IdOf(a, e.par) = None

\* one record of a batch
TakeRecord(a, rec) ==
  LET C == Cands(a, rec) IN
  IF rec.name \in a.free THEN a
  ELSE IF C = {}
  THEN \* nothing is owed under that name in that trace: say why
       IF \E x \in a.never : x.n = rec.name /\ x.tr = rec.trace
       THEN LET x == CHOOSE x \in a.never : x.n = rec.name /\ x.tr = rec.trace IN
            ViolK(a, x.p, "record-of-suppressed-trace", rec, IF x.p = "C04" /\ Has(a.rt, x.r) /\ a.rt[x.r].cid \in a.cut THEN "cut" ELSE None)
       ELSE IF \E x \in a.dl : x.n = rec.name /\ x.tr = rec.trace
       THEN Viol(a, IF a.cfg.cancelable THEN "C03" ELSE "C01", "delivered-again", rec)
       ELSE IF \E x \in a.exp \cup a.opt \cup a.dl : x.n = rec.name
       THEN Viol(a, "C02", "wrong-trace", rec)
       ELSE Viol(a, IF AdProp(a, rec.name) # None THEN AdProp(a, rec.name) ELSE IF a.cfg.cancelable THEN "C03" ELSE "C01", "unexpected-record", rec)
  ELSE LET fit == {e \in C : ParentFits(a, e, rec)}
           open == {e \in C : ParentOpen(a, e)}
           \* owed copies before optional ones
           Pick(S) == IF S \cap a.exp # {} THEN CHOOSE x \in S \cap a.exp : TRUE ELSE CHOOSE x \in S : TRUE
           e == IF fit # {} THEN Pick(fit) ELSE IF open # {} THEN Pick(open) ELSE Pick(C)
           a1 == [a EXCEPT !.exp = @ \ {e}, !.opt = @ \ {e}, !.dl = @ \cup {[n |-> e.n, tr |-> e.tr, r |-> e.r, par |-> e.par, ci |-> e.ci]}]
           a2c == IF rec.id = Zero THEN Viol(a1, "C02", "zero-id", rec) ELSE Claim(a1, "C02", rec.name, rec.id)
           \* copies of a captured local span carry the same id under every parent (C17)
           a2 == IF e.own /\ Len(a2c.viol) > Len(a1.viol) THEN Viol(a2c, "C17", "copies-differ-in-id", rec) ELSE a2c
           a3 == IF e.par = None
                 THEN IF a.rt[e.r].rpar # rec.parent THEN Viol(a2, "C02", "remote-parent", rec) ELSE a2
                 ELSE IF fit = {} /\ open = {}
                 THEN LET v == Viol(a2, "C02", "wrong-parent", [rec |-> rec, want |-> e.par])
                      \* the parent came from the thread's local context: that is C10's business as well
                      v2 == IF e.own \/ (Has(a.sp, e.n) /\ a.sp[e.n].via = "local") THEN Viol(v, "C10", "wrong-parent-from-local-context", [rec |-> rec, want |-> e.par]) ELSE v IN
                      IF e.own /\ WasOver(a, e.sc) THEN Viol(v2, "C09", "wrong-parent-beyond-the-scope-limit", [rec |-> rec, want |-> e.par]) ELSE v2
                 ELSE IF e.par = e.r /\ "virt" \in DOMAIN a.rt[e.r] THEN a2     \* to_span_records: the parent is a context, not a span
                 ELSE Claim(a2, "C02", e.par, rec.parent)
           cb == ContentBad(a, e, rec)
           cid == a.rt[e.r].cid
           \* the same span has another copy in the same trace (several parents that share a trace)
           twin == \E x \in a.exp \cup a.opt \cup a.dl : x.n = e.n /\ x.r = e.r /\ x.ci # e.ci
           \* an attachment can only be missing legitimately when the trace's start was refused (C09)
           a4x == IF cb = "ok" THEN a3
                 ELSE IF cb = "missing-attachment" /\ e.r \in a.qs THEN Viol(a3, "C09", "attachment-lost-after-refused-start", rec)
                 ELSE ViolK(a3, IF a.rt[e.r].dcancel THEN "C04" ELSE IF AdProp(a, e.n) # None THEN AdProp(a, e.n) ELSE "C06", cb, [rec |-> rec, must |-> e.must],
                            IF cb = "missing-attachment" /\ cid \in a.cut THEN "cut"
                            ELSE IF cb \in {"missing-attachment", "duplicate-attachment"} /\ twin THEN "twin" ELSE None)
           \* a copy of a captured set pushed under a parent: the copies are identical (C17)
           a4y == IF cb # "ok" /\ e.own /\ Has(a.ls, e.sc) /\ a.rt[e.r].cid \notin a.cut THEN Viol(a4x, "C17", "copies-differ-in-content", [w |-> cb, rec |-> rec, must |-> e.must]) ELSE a4x
           a4z == IF cb = "foreign-attachment" /\ LocalForeign(a, e, rec) THEN Viol(a4y, "C10", "local-attachment-landed-on-another-span", [rec |-> rec, must |-> e.must]) ELSE a4y
           a4 == IF cb # "ok" /\ e.own /\ WasOver(a, e.sc) THEN Viol(a4z, "C09", "recorded-span-changed-beyond-the-scope-limit", [w |-> cb, rec |-> rec, must |-> e.must]) ELSE a4z
           tb == TimeBad(a, rec)
           a5 == IF tb = "ok" THEN a4
                 ELSE LET v == Viol(a4, "C18", tb, [rec |-> rec, tm |-> a.tm[rec.name]]) IN
                      IF rec.name \in a.cbs THEN Viol(v, "C17", "open-span-not-closed-at-collection-time", [rec |-> rec, tm |-> a.tm[rec.name]]) ELSE v
           \* ... and the same duration (one captured interval; conversions may round differently)
           a6 == IF ~e.own \/ ~("d" \in DOMAIN rec) THEN a5
                 ELSE IF ~Has(a.dur, rec.name) THEN [a5 EXCEPT !.dur = Put(@, rec.name, rec.d)]
                 ELSE IF rec.d > a.dur[rec.name] + 2 \/ a.dur[rec.name] > rec.d + 2
                 THEN Viol(a5, "C17", "copies-differ-in-duration", [rec |-> rec, first |-> a.dur[rec.name]]) ELSE a5 IN
       [a6 EXCEPT !.got = Append(@, e), !.gotrecs = Append(@, rec)]

RECURSIVE TakeAll(_, _, _)
TakeAll(a, recs, i) == IF i > Len(recs) THEN a ELSE TakeAll(TakeRecord(a, recs[i]), recs, i + 1)

\* cancelable mode: a trace arrives only with its finished root, whole, and never again (C03);
\* a cancelled trace never arrives (C04)
BatchRules(a0, a, got) ==
  LET roots == {e.r : e \in Rng(got)}
      \* a member whose submission was refused by a full queue (C09: such span sets may be missing)
      Excused(r, m) == \E x \in a0.opt : x.r = r /\ x.n = m.n /\ x.ci = m.ci /\ (m.n = r \/ x.par = m.par)
      bad(r) ==
        IF a0.rt[r].done THEN "after-root-batch"
        ELSE IF a0.rt[r].st = "open" THEN "before-root-finished"
        ELSE IF ~(\E e \in Rng(got) : e.r = r /\ e.n = r) /\ ~Excused(r, [n |-> r, par |-> None, ci |-> 1]) THEN "without-root-record"
        ELSE IF \E m \in a0.rt[r].mem : ~Excused(r, m) /\ ~\E e \in Rng(got) : e.r = r /\ e.n = m.n /\ e.par = m.par /\ e.ci = m.ci THEN "incomplete"
        ELSE "ok"
      RECURSIVE go(_, _)
      go(st, rs) == IF rs = {} THEN st
                    ELSE LET r == CHOOSE x \in rs : TRUE
                             b == bad(r)
                             k == IF b \in {"incomplete", "without-root-record"} /\ a0.rt[r].cid \in a.cut THEN "cut" ELSE None
                             st0 == IF b = "ok" THEN st
                                    ELSE ViolK(st, IF b = "incomplete" /\ AdProp(a0, r) # None THEN AdProp(a0, r) ELSE "C03", b, [root |-> r], k)
                             \* the missing member is a span with several parents one of whose other traces was
                             \* cancelled: "cancel() suppresses that trace and nothing else" (C04)
                             lostSib == {m \in a0.rt[r].mem : ~Excused(r, m) /\ (~\E e \in Rng(got) : e.r = r /\ e.n = m.n /\ e.par = m.par /\ e.ci = m.ci)
                                                               /\ \E x \in a0.never : x.n = m.n /\ x.p = "C04" /\ x.r # r}
                             st1 == IF b = "incomplete" /\ lostSib # {}
                                    THEN ViolK(st0, "C04", "copy-lost-with-a-cancelled-sibling-trace", [root |-> r, spans |-> {m.n : m \in lostSib}], k) ELSE st0
                         IN go([st1 EXCEPT !.rt[r].done = TRUE, !.exp = {x \in @ : x.r # r}, !.opt = {x \in @ : x.r # r},
                                           !.dl = @ \cup {[n |-> x.n, tr |-> x.tr, r |-> x.r, par |-> x.par, ci |-> x.ci] : x \in {y \in st1.opt : y.r = r}}],
                               rs \ {r}) IN
  IF a.cfg.cancelable THEN go(a, roots) ELSE a

Report(a, e) ==
  LET a1 == TakeAll([a EXCEPT !.got = <<>>, !.gotrecs = <<>>], e.recs, 1)
      a2 == BatchRules(a, a1, a1.got)
      nb == NestBad(a, a1.got, a1.gotrecs)
      a3 == IF nb = "ok" THEN a2 ELSE Viol(a2, "C18", nb, a1.gotrecs) IN
  [a3 EXCEPT !.got = <<>>, !.gotrecs = <<>>]

\* LocalSpans::to_span_records(ctx) (C17): exactly the records that pushing the set under a span with
\* that context would deliver.  Checked by the same TakeRecord, against a virtual parent e.v whose
\* id is the context's span id, with everything else that is expected set aside for the moment.
RetToRec(a, e) ==
  IF ~e.ctx.some THEN a
  ELSE LET a00 == IF F(e, "src") = None THEN a ELSE CheckCtx(a, "C11", SpanCtx(a, e.src), e.ctx)
           has == Has(a.ls, e.ls)
           ents == IF has THEN a.ls[e.ls].ents ELSE <<>>
           st == IF has THEN a.ls[e.ls].t ELSE e.t
           lin == <<[r |-> e.v, tr |-> e.ctx.tr, par |-> e.v, smp |-> TRUE]>>
           want == {[x EXCEPT !.due = TRUE] : x \in SetRecords(ents, e.v, lin, st, e.t, e.ls)}
           vroot == [tr |-> e.ctx.tr, rpar |-> e.ctx.id, smp |-> TRUE, st |-> "open", cid |-> None,
                     opt |-> FALSE, mem |-> {}, done |-> FALSE, ret |-> FALSE, dcancel |-> FALSE, virt |-> TRUE]
           a0 == [Hint(a00, e.v, e.ctx.id) EXCEPT !.rt = Put(@, e.v, vroot), !.exp = want, !.opt = {}, !.never = {}, !.dl = {},
                                                  !.got = <<>>, !.gotrecs = <<>>]
           a1 == TakeAll(a0, e.recs, 1)
           nb == NestBad(a0, a1.got, a1.gotrecs)
           a2 == IF nb = "ok" THEN a1 ELSE Viol(a1, "C18", nb, a1.gotrecs)
           a3 == IF a2.exp # {} THEN Viol(a2, "C17", "to_span_records-record-missing", {x.n : x \in a2.exp}) ELSE a2
           new == SubSeq(a3.viol, Len(a00.viol) + 1, Len(a3.viol))
           also == SelectSeq(new, LAMBDA x : x.p # "C17")
           re == [i \in DOMAIN also |-> [also[i] EXCEPT !.p = "C17", !.d = <<"to_span_records", @>>]] IN
       [a3 EXCEPT !.rt = a.rt, !.exp = a.exp, !.opt = a.opt, !.never = a.never, !.dl = a.dl, !.got = <<>>, !.gotrecs = <<>>,
                  !.hints = {c \in @ : c[1] # e.v}, !.viol = @ \o re]

----------------------------------------------------------------------------
(* collector cycles, rings, statistics *)


CycBegin(a, e) == [a EXCEPT !.cyc = DueNow(a)]

\* a command of collect id c was pushed onto the ring of thread t
Push(a, e) ==
  LET add(cm, c) == Put(cm, c, Append(Get(cm, c, <<>>), [t |-> e.t, got |-> FALSE]))
      RECURSIVE addAll(_, _)
      addAll(cm, i) == IF i > Len(e.cids) THEN cm ELSE addAll(add(cm, e.cids[i]), i + 1) IN
  [a EXCEPT !.cmds = addAll(@, 1)]

\* the collector has taken everything that was on the ring of thread t
\* (TLC keeps a function constructor as an unevaluated closure; one that reads the previous closure twice
\* makes every later look-up twice as expensive: Eager turns it into an explicit function first)
Eager(f) == IF f = EmptyFn THEN EmptyFn ELSE f
Drain(a, e) ==
  LET old == Eager(a.cmds)
      mark(s) == [i \in DOMAIN s |-> IF s[i].t = e.t THEN [s[i] EXCEPT !.got = TRUE] ELSE s[i]] IN
  [a EXCEPT !.cmds = Eager([c \in DOMAIN old |-> Eager(mark(old[c]))])]

\* ... and is about to process the batch: a trace is cut when a command of it was taken while one
\* pushed earlier on another thread is still waiting
CutNow(cm) == {c \in DOMAIN cm : \E i, j \in DOMAIN cm[c] : i < j /\ cm[c][i].t # cm[c][j].t /\ ~cm[c][i].got /\ cm[c][j].got}
Prune(cm) == LET f == Eager([c \in DOMAIN cm |-> SelectSeq(cm[c], LAMBDA x : ~x.got)]) IN
             Eager([c \in {x \in DOMAIN f : f[x] # <<>>} |-> f[c]])
BeforeProcess(a, e) == [a EXCEPT !.cut = @ \cup CutNow(a.cmds), !.cmds = Prune(a.cmds)]

CycEnd(a, e) ==
  LET late == a.cyc \cap a.exp
      a1 == CopyMissing(a, [a EXCEPT !.cyc = {}], a.cyc \cap a.exp)
      k == IF \A x \in late : a.rt[x.r].cid \in a.cut THEN "cut" ELSE None
      adl == {x \in late : AdProp(a, x.n) # None} IN
  IF late # {}
  THEN ViolK(a1, IF adl # {} THEN AdProp(a, (CHOOSE x \in adl : TRUE).n) ELSE IF a.cfg.cancelable THEN "C03" ELSE "C01",
             "not-delivered-by-cycle", {[n |-> x.n, r |-> x.r] : x \in late}, k)
  ELSE a1

\* "Delivery needs no further call": nobody has called flush() and the reporter has been left alone
\* for many report intervals (free-running executions), or two background cycles have run (model)
Idle(a, e) ==
  LET late == DueNow(a)
      a1 == CopyMissing(a, a, late)
      k == IF \A x \in late : a.rt[x.r].cid \in a.cut THEN "cut" ELSE None
      adl == {x \in late : AdProp(a, x.n) # None} IN
  IF late # {}
  THEN ViolK(a1, IF adl # {} THEN AdProp(a, (CHOOSE x \in adl : TRUE).n) ELSE IF a.cfg.cancelable THEN "C03" ELSE "C01",
             "not-delivered-without-a-flush", {[n |-> x.n, r |-> x.r] : x \in late}, k)
  ELSE a1

\* ids the library handed out to distinct spans (many short-lived threads): non-zero and pairwise distinct (C02)
Ids(a, e) ==
  LET S == Rng(e.ids)
      a1 == IF Zero \in S THEN Viol(a, "C02", "zero-id", e.threads) ELSE a IN
  IF Cardinality(S) # Len(e.ids)
  THEN Viol(a1, "C02", "span-ids-not-distinct", [spans |-> Len(e.ids), distinct |-> Cardinality(S), threads |-> e.threads])
  ELSE a1

\* attachments that are equal to each other (the same property or event attached several times, from one
\* thread or several, across a cycle or not): every call attaches once more (C06).  Elsewhere the harness
\* gives every attachment its own key, which is what lets Abs tell them apart.
Dup(a, e) ==
  IF e.got_props = e.want_props /\ e.got_events = e.want_events THEN a
  ELSE Viol(a, "C06", "equal-attachments-merged-or-multiplied", [props |-> <<e.want_props, e.got_props>>, events |-> <<e.want_events, e.got_events>>])

\* LocalSpan::with_property on a span that is not the innermost handle (a scope opened later is still alive;
\* release order as required): the call returns and the property arrives on that span (C07, C06).
\* On the pinned code it does not: listed finding D20, signature with-line.
WithLine(a, e) ==
  IF e.outcome = "ok" THEN a
  ELSE ViolK(ViolK(a, "C07", "with_properties-under-a-later-scope", e.outcome, "with-line"),
             "C06", "with_properties-under-a-later-scope", e.outcome, "with-line")

\* a long backlog on one queue (fewer commands than the queue holds, so nothing is refused), no cycle in
\* between, then one flush(): everything finished before the call is there when it returns (C01 / C03)
Burst(a, e) ==
  IF e.by_flush = e.finished THEN a
  ELSE Viol(a, IF a.cfg.cancelable THEN "C03" ELSE "C01", "backlog-not-delivered-by-flush",
            [finished |-> e.finished, delivered_when_flush_returned |-> e.by_flush, after_two_more |-> e.later, other_thread |-> e.cross])

\* overload on the built-in capacities (C09): thousands of traces started and finished on one thread with no cycle in
\* between - the queue full, thousands of signals parked - every call still returns; after the queue has drained a new
\* trace, with a child submitted by the thread that was overloaded, is delivered completely
BurstR(a, e) ==
  LET a1 == IF ~e.returned THEN Viol(a, "C09", "tracing-calls-blocked-while-the-queue-was-full", [roots |-> e.roots]) ELSE a IN
  IF e.returned /\ (e.late_delivered # e.late_expected \/ ~e.calls_after_ok)
  THEN Viol(a1, "C09", "trace-started-after-the-drain-not-delivered-completely",
            [expected |-> e.late_expected, delivered |-> e.late_delivered, calls_returned |-> e.calls_after_ok])
  ELSE a1

\* at quiescence (no call in progress, two full cycles since the last one): the collector keeps an
\* entry only for sampled roots that are still open, and no receiver of an exited thread (C08)
Stats(a, e) ==
  LET open == {a.rt[r].cid : r \in {x \in DOMAIN a.rt : (a.rt[x].st = "open" \/ x \in AllParked(a)) /\ a.rt[x].smp}}
      extra == (Rng(e.active) \ open) \ a.cfg.foreign
      a1 == IF extra # {} THEN ViolK(a, "C08", "retained-trace-state", extra, IF extra \subseteq a.cut THEN "cut" ELSE None) ELSE a IN
  IF ~Recording(a) THEN [a EXCEPT !.heap = F(e, "heap")]       \* no reporter installed: there is no collector to consume anything
  ELSE [(IF e.deadrx > 0 THEN Viol(a1, "C08", "retained-dead-thread", e.deadrx) ELSE a1) EXCEPT !.heap = F(e, "heap")]

RetAny(a, e) ==
  IF Has(e, "panic") THEN Viol(a, "C07", "panic", <<e.op, e.panic>>) ELSE a

----------------------------------------------------------------------------
Refused(e) == F(e, "refused") = TRUE

Call0(a, e) ==
  CASE e.op = "root"      -> CallRoot(a, e)
    [] e.op = "child"     -> CallChild(a, e)
    [] e.op = "childl"    -> CallChildLocal(a, e)
    [] e.op = "mknoop"    -> NewSpan(a, e.h, <<>>, TRUE)
    [] e.op = "setlp"     -> CallSetLp(a, e)
    [] e.op = "dropg"     -> CallDropGuard(a, e)
    [] e.op = "lcstart"   -> CallLcStart(a, e)
    [] e.op = "lccollect" -> CallLcCollect(a, e)
    [] e.op = "lcdrop"    -> CallLcDrop(a, e)
    [] e.op = "lenter"    -> CallLEnter(a, e)
    [] e.op = "lexit"     -> CallLExit(a, e)
    [] e.op = "levent"    -> CallLEvent(a, e)
    [] e.op = "lprops"    -> a     \* needs the closure count first: applied at the return
    [] e.op = "lwith"     -> a
    [] e.op = "swith"     -> a
    [] e.op = "pushc"     -> CallPushChild(a, e)
    [] e.op = "drop"      -> CallDrop(a, e)
    [] e.op = "cancel"    -> CallCancel(a, e)
    [] e.op = "flush"     -> CallFlush(a, e)
    [] e.op = "fnew"      -> CallFNew(a, e)
    [] e.op = "fpoll"     -> CallFPoll(a, e)
    [] e.op = "pollend"   -> CallPollEnd(a, e)
    [] e.op = "fdrop"     -> CallFDrop(a, e)
    [] OTHER              -> a

\* clock brackets first (they need the scope as it is before the call closes it)
Call(a, e) ==
  LET a1 == CASE e.op \in {"root", "child", "childl", "rootctx"} -> TmBegin(a, e.h, e)
              [] e.op = "lenter" -> TmBegin(a, e.l, e)
              [] e.op \in {"levent", "sevent"} -> TmBegin(a, e.evt.name, e)
              [] e.op = "drop" -> TmEnd(a, e.h, e)
              [] e.op = "lexit" -> TmEnd(a, e.l, e)
              \* cbs: local spans closed by the end of their scope (C17: "closed at the collection time")
              [] e.op = "dropg" /\ Has(a.sc, e.g) -> [TmAll(a, OpenIn(a, e.g), e, FALSE) EXCEPT !.cbs = @ \cup OpenIn(a, e.g)]
              [] e.op \in {"lccollect", "lcdrop"} /\ Has(a.sc, e.c) -> [TmAll(a, OpenIn(a, e.c), e, FALSE) EXCEPT !.cbs = @ \cup OpenIn(a, e.c)]
              [] OTHER -> a IN
  Call0(a1, e)

RetTm(a, e) ==
  CASE e.op \in {"root", "child", "childl", "rootctx"} -> TmBegun(a, e.h, e)
    [] e.op = "lenter" -> TmBegun(a, e.l, e)
    [] e.op \in {"levent", "sevent"} -> TmBegun(a, e.evt.name, e)
    [] e.op = "drop" -> TmEnded(a, e.h, e)
    [] e.op = "lexit" -> TmEnded(a, e.l, e)
    [] e.op = "dropg" /\ Has(a.sc, e.g) -> TmAll(a, {x.n : x \in {y \in Rng(a.sc[e.g].ents) : y.k = "span"}}, e, TRUE)
    [] e.op \in {"lccollect", "lcdrop"} /\ Has(a.sc, e.c) -> TmAll(a, {x.n : x \in {y \in Rng(a.sc[e.c].ents) : y.k = "span"}}, e, TRUE)
    [] OTHER -> a

Ret(a, e) ==
  LET a0 == Parked(RetAny(RetTm(a, e), e), e)
      a1 == CASE Has(e, "panic") -> a0      \* no results to look at
              [] e.op = "root"   -> RetRoot(a0, e)
              [] e.op = "rootctx" -> RetRootCtx(a0, e)
              [] e.op \in {"child", "childl"} -> RetSpanId(a0, e)
              [] e.op = "lenter" -> RetLEnter(a0, e)
              [] e.op = "lprops" -> CallLProps(RetClosure(a0, e), e)
              [] e.op = "lwith"  -> CallLWith(RetClosure(a0, e), e)
              [] e.op = "swith"  -> CallSWith(RetClosure(a0, e), e)
              [] e.op = "sprops" -> RetSProps(RetClosure(a0, e), e)
              [] e.op = "sevent" -> RetSEvent(RetClosure(a0, e), e)
              [] e.op = "levent" -> RetClosure(a0, e)
              [] e.op = "ctxl"   -> RetCtxLocal(a0, e)
              [] e.op = "ctxs"   -> RetCtxSpan(a0, e)
              [] e.op = "elapsed" -> RetElapsed(a0, e)
              [] e.op = "flush"  -> RetFlush(a0, e)
              [] e.op = "fpoll"  -> RetFPoll(a0, e)
              [] e.op = "fdrop"  -> RetFDrop(a0, e)
              [] e.op = "torec"  -> RetToRec(a0, e)
              [] e.op = "drop" /\ Has(a0.rt, e.h) -> [a0 EXCEPT !.rt[e.h].ret = TRUE]
              [] OTHER           -> a0 IN
  Settle(a1, e.t, Refused(e))

\* calls made from a thread-local destructor after fastrace's own thread-locals are gone: they must
\* return (C07); what they do or do not record is not constrained
TlsRet(a, e) ==
  IF Has(e, "panic")
  THEN ViolK(a, "C07", "panic-in-thread-local-destructor", <<e.op, e.panic>>, IF e.op = "ctxrandom" THEN "tls-random" ELSE None)
  ELSE IF Has(e, "cid") THEN [a EXCEPT !.cfg.foreign = @ \cup {e.cid}]     \* nor is what the collector keeps for them
  ELSE a

AbsStep(a, e) ==
  CASE e.ev \in {"call", "ret"} /\ Has(e, "tls") ->
         \* spans such calls create may or may not be recorded: their records are not constrained
         IF e.ev = "ret" THEN TlsRet(a, e) ELSE [a EXCEPT !.free = @ \cup ({F(e, "h"), F(e, "l")} \ {None})]
    [] e.ev = "call"      -> Call(a, e)
    [] e.ev = "ret"       -> Ret(a, e)
    [] e.ev = "report"    -> Report(a, e)
    [] e.ev = "cycbegin"  -> CycBegin(a, e)
    [] e.ev = "process"   -> BeforeProcess(a, e)
    [] e.ev = "cycend"    -> CycEnd(a, e)
    [] e.ev = "push"      -> Push(a, e)
    [] e.ev = "drain"     -> Drain(a, e)
    [] e.ev = "stats"     -> Stats(a, e)
    [] e.ev = "idle"      -> Idle(a, e)
    [] e.ev = "ids"       -> Ids(a, e)
    [] e.ev = "burst"     -> Burst(a, e)
    [] e.ev = "burstr"    -> BurstR(a, e)
    [] e.ev = "dup"       -> Dup(a, e)
    [] e.ev = "withline"  -> WithLine(a, e)
    [] OTHER              -> a

RECURSIVE AbsRun(_, _, _)
AbsRun(a, es, i) == IF i > Len(es) THEN a ELSE AbsRun(AbsStep(a, es[i]), es, i + 1)
=============================================================================
