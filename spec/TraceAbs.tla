------------------------------ MODULE TraceAbs ------------------------------
(***************************************************************************)
(* Trace validation: the events recorded from the real implementation      *)
(* (ndjson, file named by the environment variable TRACE) are consumed by  *)
(* the same AbsStep that Fastrace.tla carries as ghost state.  One TLC     *)
(* state per recorded run (the lines from one `reset` to the next); every  *)
(* failed check of every run is printed as a VIOL line.  The postcondition *)
(* requires that the whole file was consumed.                              *)
(***************************************************************************)
EXTENDS Naturals, Sequences, TLC, Json, IOUtils, SequencesExt

CONSTANT None
Zero == "0000000000000000"
A == INSTANCE Abs WITH None <- None, Zero <- Zero
\* conformance of the command channel with Channel.tla, on the hook events of the same runs
Ch == INSTANCE TraceChan WITH None <- None
\* conformance of the collector's batch processing with Collector.tla, on the collector's hook events
Cl == INSTANCE TraceColl WITH None <- None, Zero <- Zero

Rec == ndJsonDeserialize(IOEnv.TRACE)
N == Len(Rec)

VARIABLES i,      \* next line to consume
          runs,   \* runs consumed
          bad,    \* runs with at least one failed check
          hb      \* churn runs: bytes allocated at quiescence after the warm-up runs

\* Churn (C08): the same behaviours over and over in one process.  Whatever the collector keeps per
\* finished trace - also in places the statistics hook does not know of - makes the bytes allocated
\* at quiescence grow with the number of runs.
Warm == 25
HeapTol == 12000

CfgOf(e) == [cancelable |-> e.cfg.cancelable, enabled |-> e.cfg.enabled, ready |-> e.cfg.ready,
             queue |-> e.cfg.queue, stack |-> e.cfg.stack, foreign |-> A!Rng(e.cfg.foreign),
             tolm |-> 60, tolw |-> 3000]

\* consume lines from j until the next reset; returns <<abstract state, next line, channel state, collector state>>
RECURSIVE Consume(_, _, _, _)
Consume(a, j, c, k) ==
  IF j > N \/ Rec[j].ev = "reset" THEN <<a, j, c, k>>
  ELSE LET e == Rec[j]
           a1 == IF e.ev = "hang" THEN A!Viol(a, IF "p" \in DOMAIN e THEN e.p ELSE "C07", "hang", e.who) ELSE A!AbsStep(a, e) IN
       Consume(a1, j + 1, Ch!ChanStep(c, e), Cl!CollStep(k, e))

ShowDrift(run, d) == PrintT(<<"DRIFT", ToJson([run |-> run, p |-> d.p, w |-> d.w, k |-> "", d |-> ToString(d.d)])>>)
ShowCDrift(run, d) == PrintT(<<"CDRIFT", ToJson([run |-> run, p |-> d.p, w |-> d.w, k |-> "", d |-> ToString(d.d)])>>)
Show(run, v) == PrintT(<<"VIOL", ToJson([run |-> run, p |-> v.p, w |-> v.w, k |-> IF v.k = None THEN "" ELSE v.k, d |-> ToString(v.d)])>>)

Init == i = 1 /\ runs = 0 /\ bad = 0 /\ hb = 0
Next ==
  /\ i <= N
  /\ Rec[i].ev = "reset"
  /\ LET a0 == A!AbsInit(CfgOf(Rec[i]))
         \* built without the `enable` feature, set_reporter() must not start anything (C16)
         a1 == IF ~Rec[i].cfg.enabled /\ "sr_threads" \in DOMAIN Rec[i].cfg /\ Rec[i].cfg.sr_threads # 0
               THEN A!Viol(a0, "C16", "set_reporter-started-a-thread", Rec[i].cfg.sr_threads)
               ELSE IF ~Rec[i].cfg.enabled /\ "flush_threads" \in DOMAIN Rec[i].cfg /\ Rec[i].cfg.flush_threads # 0
               THEN A!Viol(a0, "C16", "flush-started-a-thread", Rec[i].cfg.flush_threads) ELSE a0
         r == Consume(a1, i + 1, Ch!ChanInit(IF "ring" \in DOMAIN Rec[i].cfg THEN Rec[i].cfg.ring ELSE 10240),
                      Cl!CollInit(Rec[i].cfg.cancelable, A!Rng(Rec[i].cfg.foreign), ~("free" \in DOMAIN Rec[i].cfg) \/ Rec[i].run <= 40))
         cdr == Cl!CollResult(r[4])
         v == r[1].viol
         dr == Ch!ChanResult(r[3]) IN
     /\ \A k \in DOMAIN v : Show(Rec[i].run, v[k])
     /\ \A k \in DOMAIN dr : ShowDrift(Rec[i].run, dr[k])
     /\ r[3].steered => PrintT(<<"CHAN", Rec[i].run, r[3].events>>)
     /\ \A k \in DOMAIN cdr : ShowCDrift(Rec[i].run, cdr[k])
     /\ r[4].cycles > 0 => PrintT(<<"COLL", Rec[i].run, r[4].cycles, r[4].recs>>)
     /\ r[1].ovl => PrintT(<<"OVL", Rec[i].run>>)
     /\ LET churn == "churn" \in DOMAIN Rec[i].cfg /\ r[1].heap # None IN
        /\ hb' = IF churn /\ runs = Warm THEN r[1].heap ELSE hb
        \* (the events of a run are kept in memory until it is over: a run of more than 300 events is not measured
        \* itself - the runs after it are)
        /\ (churn /\ runs > Warm /\ r[2] - i <= 300 /\ r[1].heap > hb + HeapTol) =>
              PrintT(<<"VIOL", ToJson([run |-> Rec[i].run, p |-> "C08", w |-> "heap-keeps-growing", k |-> "",
                                       d |-> ToString(<<"bytes at quiescence after warm-up", hb, "now", r[1].heap, "runs", runs>>)])>>)
     /\ i' = r[2]
     /\ runs' = runs + 1
     /\ bad' = IF v = <<>> THEN bad ELSE bad + 1

Accepted == IF TLCGet("stats").diameter = TLCGet("stats").diameter /\ TRUE
            THEN PrintT(<<"CONSUMED", TLCGet("stats").diameter - 1>>) ELSE FALSE
=============================================================================
