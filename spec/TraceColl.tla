----------------------------- MODULE TraceColl -----------------------------
(***************************************************************************)
(* Conformance of the real collector's batch processing with Collector.tla *)
(* (the `Process` that Fastrace.tla's collector step applies and TLC        *)
(* explores), evaluated on the hook events of every recorded run - steered  *)
(* or free-running: all of them come from the collector's thread, under its *)
(* lock, so their order in the trace is the order in which they happened.   *)
(*                                                                         *)
(*   event                              what is done                        *)
(*   process starts drops commits       the signal commands of the batch    *)
(*   batch subs                         its SubmitSpans commands: token     *)
(*                                      items (cid, trace, parent) and raw  *)
(*                                      spans (id, parent, kind, #props)    *)
(*   after active                       <<act', recs>> = Process(cf, act, b)*)
(*                                      act' must be what the collector     *)
(*                                      keeps now: the same collect ids,    *)
(*                                      the same number of buffered sets    *)
(*                                      and parked attachments per id       *)
(*   report recs                        trace by trace, the reported        *)
(*                                      records are `recs`: same ids, same  *)
(*                                      parents, same number of properties  *)
(*                                      and events, same order              *)
(*   cycend                             nothing expected is left unreported *)
(*   reinstall                          set_reporter() again: act = empty   *)
(*                                                                         *)
(* A failed comparison is appended to `drift` as [w, d, p] like in          *)
(* TraceChan.tla: p = "" says that the code no longer follows the           *)
(* implementation-shaped model; p = "C08" is the property's own clause (the *)
(* collector keeps an entry for a trace whose finish or cancel signal it    *)
(* has processed).                                                          *)
(*                                                                         *)
(* Entries that were active when the run began (`foreign`: left by earlier  *)
(* runs in the same process, e.g. the listed cut findings) are unknown to   *)
(* the fold: token items addressed to them, their traces' records and their *)
(* statistics are left out on both sides.                                   *)
(***************************************************************************)
EXTENDS Naturals, Sequences, FiniteSets, SequencesExt, TLC

CONSTANTS None, Zero
Co == INSTANCE Collector WITH Zero <- Zero

Kind(k) == IF k = 0 THEN "span" ELSE IF k = 1 THEN "event" ELSE "props"
Rg(s) == {s[i] : i \in DOMAIN s}

\* on = FALSE: the run is not folded (free-running traces are long - thousands of cycles per round - and the fold
\* costs about as much again as the Abs fold: TraceAbs.tla folds the first 40 rounds of such a trace and every steered run)
CollInit(cancelable, foreign, on) ==
  [on |-> on, cf |-> [canc |-> cancelable, fixcd |-> TRUE, mut |-> "none"], act |-> [c \in {} |-> None], foreign |-> foreign, ftr |-> {},
   sig |-> <<>>, subs |-> <<>>, exp |-> <<>>, pending |-> FALSE, cycles |-> 0, recs |-> 0, drift |-> <<>>]

Drift(c, w, d, p) == [c EXCEPT !.drift = Append(@, [w |-> w, d |-> d, p |-> p])]

Sig(k, cids) == [i \in DOMAIN cids |-> [k |-> k, c |-> cids[i]]]
\* one SubmitSpans command as Collector.tla wants it; token items addressed to foreign entries are left out
Sub(c, s) ==
  [k |-> "submit",
   q |-> [i \in DOMAIN s.q |-> [k |-> Kind(s.q[i].k), id |-> s.q[i].id, par |-> s.q[i].par, n |-> s.q[i].id,
                                props |-> [j \in 1..s.q[i].np |-> 0]]],
   tok |-> SelectSeq(s.tok, LAMBDA it : it.cid \notin c.foreign)]
ForeignTraces(c, subs) == UNION {{s.tok[i].tr : i \in {j \in DOMAIN s.tok : s.tok[j].cid \in c.foreign}} : s \in Rg(subs)}

Proj(r) == <<r.id, r.parent, Len(r.props), Len(r.events)>>
OfTrace(recs, tr) == LET s == SelectSeq(recs, LAMBDA r : r.trace = tr) IN [i \in DOMAIN s |-> Proj(s[i])]
StatOf(act) == {<<cid, Len(act[cid].colls), Len(act[cid].dang)>> : cid \in DOMAIN act}

CollStep(c, e) ==
  IF ~c.on THEN c ELSE
  CASE e.ev = "process" ->
         \* (free-running runs contain thousands of cycles that find nothing: kept cheap)
         IF e.starts = <<>> /\ e.drops = <<>> /\ e.commits = <<>> THEN [c EXCEPT !.sig = <<>>, !.subs = <<>>]
         ELSE [c EXCEPT !.sig = Sig("start", e.starts) \o Sig("drop", e.drops) \o Sig("commit", e.commits), !.subs = <<>>]
    [] e.ev = "batch" -> [c EXCEPT !.subs = e.subs]
    \* an empty batch with nothing retained on either side changes nothing
    [] e.ev = "after" /\ c.sig = <<>> /\ c.subs = <<>> /\ e.active = <<>> /\ DOMAIN c.act = {} ->
         [c EXCEPT !.cycles = @ + 1, !.pending = FALSE, !.exp = <<>>]
    [] e.ev = "after" ->
         LET subs == [i \in DOMAIN c.subs |-> Sub(c, c.subs[i])]
             b == c.sig \o SelectSeq(subs, LAMBDA s : s.tok # <<>>)
             pr == Co!Process(c.cf, c.act, b)
             ftr == c.ftr \cup ForeignTraces(c, c.subs)
             code == {<<x.cid, x.sets, x.dang>> : x \in {y \in Rg(e.active) : y.cid \notin c.foreign}}
             model == StatOf(pr[1])
             kept == {x[1] : x \in code} \ DOMAIN pr[1]
             done == {s.c : s \in {x \in Rg(c.sig) : x.k = "commit" \/ (x.k = "drop" /\ c.cf.canc)}}
             c1 == [c EXCEPT !.act = pr[1], !.exp = pr[2], !.pending = TRUE, !.ftr = ftr, !.cycles = @ + 1, !.sig = <<>>, !.subs = <<>>]
             c2 == IF kept \cap done # {}
                   THEN Drift(c1, "entry-kept-after-its-finish-or-cancel-signal-was-processed", kept \cap done, "C08") ELSE c1 IN
         IF code = model \/ kept \cap done # {} THEN c2
         ELSE Drift(c2, "retained-state-differs", <<"model", model, "code", code>>, "")
    [] e.ev = "report" /\ c.pending ->
         LET code == SelectSeq(e.recs, LAMBDA r : r.trace \notin c.ftr)
             trs == {code[i].trace : i \in DOMAIN code} \cup {c.exp[i].trace : i \in DOMAIN c.exp}
             bad == {tr \in trs : OfTrace(code, tr) # OfTrace(c.exp, tr)}
             c1 == [c EXCEPT !.exp = <<>>, !.pending = FALSE, !.recs = @ + Len(code)] IN
         IF bad = {} THEN c1
         ELSE LET tr == CHOOSE x \in bad : TRUE IN
              Drift(c1, "reported-records-differ", <<"trace", tr, "model", OfTrace(c.exp, tr), "code", OfTrace(code, tr)>>, "")
    [] e.ev = "cycend" ->
         IF c.pending /\ c.exp # <<>>
         THEN Drift([c EXCEPT !.exp = <<>>, !.pending = FALSE], "expected-records-not-reported", Len(c.exp), "")
         ELSE [c EXCEPT !.pending = FALSE]
    \* set_reporter() again: a fresh collector object, nothing retained
    [] e.ev = "reinstall" -> [c EXCEPT !.act = [x \in {} |-> None], !.foreign = {}, !.sig = <<>>, !.subs = <<>>, !.exp = <<>>, !.pending = FALSE]
    [] OTHER -> c

CollResult(c) == c.drift
=============================================================================
