------------------------------ MODULE Channel ------------------------------
(***************************************************************************)
(* The command channel of fastrace at the grain of single ring operations: *)
(*   util/spsc.rs       Sender::send / force_send / drop, Receiver::try_recv*)
(*   global_collector.rs register_receiver, the sweep of handle_commands    *)
(*                       (retain_mut over SPSC_RXS), flush()                *)
(*                                                                         *)
(* Fastrace.tla treats "pop until empty" as ONE step (Col/drain) and the   *)
(* is_abandoned() read as the next.  This module is one level finer - one  *)
(* step per rtrb push, pop, is_abandoned() read - and is used for three    *)
(* things:                                                                 *)
(*   1. safety of the channel itself for every interleaving (conservation, *)
(*      per-thread FIFO, forced signals never lost or reordered while the  *)
(*      thread lives, a receiver is only removed empty and dead);          *)
(*   2. LIVENESS under fairness, which the bounded, budgeted Fastrace.tla  *)
(*      cannot state: what enters a ring is eventually processed (C01      *)
(*      "delivery needs no further call"), flush() returns although it may *)
(*      overlap a running cycle (C07), a dead thread's receiver is         *)
(*      eventually dropped (C08);                                          *)
(*   3. the refinement argument of DESIGN.md 3.3: ChannelCoarse.tla (the   *)
(*      grain Fastrace.tla uses) is implemented by this module under the   *)
(*      mapping RefMap (checked by TLC as a temporal property).            *)
(* TraceChan.tla validates the hook events recorded from the real library  *)
(* against the same state and invariants.                                  *)
(***************************************************************************)
EXTENDS Naturals, Sequences, FiniteSets, TLC, SequencesExt

CONSTANTS
  Threads,      \* producer threads
  Born,         \* threads whose receiver is registered initially (in increasing order)
  K,            \* ring capacity
  Prog,         \* thread -> Seq("send" | "force"): the calls it makes, then (if in Exits) it exits
  Exits,        \* threads that exit when their program is done
  Flushers,     \* number of flush() calls available (each may overlap a running cycle)
  FixRecv,      \* TRUE: try_recv looks once more after seeing the channel abandoned (fix 1964d03)
  FixExitOrder, \* TRUE: Sender::drop stops flushing at the first failure (fix 9850bab)
  FixFifo,      \* TRUE: overflow list is a FIFO, new forced values park behind (fix 3c0b78d)
  None

VARIABLES
  tst,       \* thread -> "unborn" | "starting" | "live" | "exiting" | "dead"
  pc,        \* thread -> index of its next call
  call,      \* thread -> None | [mode, cmd]: a send / force_send in progress
  ring,      \* thread -> Seq(cmd)
  pend,      \* thread -> overflow list, oldest first
  reg,       \* Seq(thread): SPSC_RXS
  cph,       \* "idle" | "pop" | "abandon" | "repop" | "process"
  ci,        \* index into reg of the receiver being drained
  second,    \* the drain in progress is the second look after is_abandoned()
  part,      \* what the drain in progress has popped so far
  batch,     \* commands taken in this cycle
  own,       \* 0: background cycle, n > 0: the n-th flush() owns the cycle
  fl,        \* flush number -> "idle" | "waiting" | "running" | "done"
  consumed,  \* Seq(cmd): everything handed to batch processing, in processing order
  atcall,    \* flush number -> the commands that were in some ring when it was called (history)
  lost,      \* commands refused by a full ring (send) or dropped at thread exit
  destroyed  \* commands destroyed together with a removed receiver

vars == <<tst, pc, call, ring, pend, reg, cph, ci, second, part, batch, own, fl, atcall, consumed, lost, destroyed>>

Cmd(t, i) == <<t, i>>
Rng(s) == {s[i] : i \in DOMAIN s}
RECURSIVE SortedSeq(_)
SortedSeq(S) == IF S = {} THEN <<>> ELSE LET m == CHOOSE x \in S : \A y \in S : x <= y IN <<m>> \o SortedSeq(S \ {m})

Init ==
  /\ tst = [t \in Threads |-> IF t \in Born THEN "live" ELSE "unborn"]
  /\ pc = [t \in Threads |-> 1]
  /\ call = [t \in Threads |-> None]
  /\ ring = [t \in Threads |-> <<>>] /\ pend = [t \in Threads |-> <<>>]
  /\ reg = SortedSeq(Born)
  /\ cph = "idle" /\ ci = 0 /\ second = FALSE /\ part = <<>> /\ batch = <<>> /\ own = 0
  /\ fl = [n \in 1..Flushers |-> "idle"] /\ atcall = [n \in 1..Flushers |-> {}]
  /\ consumed = <<>> /\ lost = {} /\ destroyed = {}

----------------------------------------------------------------------------
(* producers *)

\* first touch of COMMAND_SENDER: register_receiver needs SPSC_RXS, which the collector holds for the
\* whole sweep (the only place a tracing call waits for the collector; it is bounded by one sweep)
Spawn(t) ==
  /\ tst[t] = "unborn"
  /\ IF cph \in {"idle", "process"}
     THEN tst' = [tst EXCEPT ![t] = "live"] /\ reg' = Append(reg, t)
     ELSE tst' = [tst EXCEPT ![t] = "starting"] /\ UNCHANGED reg
  /\ UNCHANGED <<pc, call, ring, pend, cph, ci, second, part, batch, own, fl, atcall, consumed, lost, destroyed>>

Registered(t) ==
  /\ tst[t] = "starting" /\ cph \in {"idle", "process"}
  /\ tst' = [tst EXCEPT ![t] = "live"] /\ reg' = Append(reg, t)
  /\ UNCHANGED <<pc, call, ring, pend, cph, ci, second, part, batch, own, fl, atcall, consumed, lost, destroyed>>

\* send_command / force_send_command is entered
StartCall(t) ==
  /\ tst[t] = "live" /\ call[t] = None /\ pc[t] <= Len(Prog[t])
  /\ call' = [call EXCEPT ![t] = [mode |-> Prog[t][pc[t]], cmd |-> Cmd(t, pc[t])]]
  /\ pc' = [pc EXCEPT ![t] = @ + 1]
  /\ UNCHANGED <<tst, ring, pend, reg, cph, ci, second, part, batch, own, fl, atcall, consumed, lost, destroyed>>

Full(t) == Len(ring[t]) >= K

\* one tx.push attempt of Sender::send / force_send: the oldest parked command if there is one,
\* otherwise the value itself
Attempt(t) ==
  /\ tst[t] = "live" /\ call[t] # None
  /\ LET c == call[t] IN
     IF pend[t] # <<>>
     THEN LET p == IF FixFifo THEN Head(pend[t]) ELSE pend[t][Len(pend[t])]       \* pinned: Vec::pop (last in, first out)
              rest == IF FixFifo THEN Tail(pend[t]) ELSE SubSeq(pend[t], 1, Len(pend[t]) - 1) IN
          IF ~Full(t)
          THEN /\ ring' = [ring EXCEPT ![t] = Append(@, p)]
               /\ pend' = [pend EXCEPT ![t] = rest]
               /\ UNCHANGED <<call, lost>>
          ELSE IF c.mode = "send"
          THEN /\ lost' = lost \cup {c.cmd} /\ call' = [call EXCEPT ![t] = None] /\ UNCHANGED <<ring, pend>>
          ELSE IF FixFifo
          THEN /\ pend' = [pend EXCEPT ![t] = Append(@, c.cmd)] /\ call' = [call EXCEPT ![t] = None] /\ UNCHANGED <<ring, lost>>
          \* pinned force_send: the failed replay is put back and the loop is left; the value is tried next
          ELSE /\ call' = [call EXCEPT ![t] = [c EXCEPT !.mode = "force-value"]] /\ UNCHANGED <<ring, pend, lost>>
     ELSE IF ~Full(t)
          THEN /\ ring' = [ring EXCEPT ![t] = Append(@, c.cmd)] /\ call' = [call EXCEPT ![t] = None] /\ UNCHANGED <<pend, lost>>
          ELSE IF c.mode = "send"
          THEN /\ lost' = lost \cup {c.cmd} /\ call' = [call EXCEPT ![t] = None] /\ UNCHANGED <<ring, pend>>
          ELSE /\ pend' = [pend EXCEPT ![t] = Append(@, c.cmd)] /\ call' = [call EXCEPT ![t] = None] /\ UNCHANGED <<ring, lost>>
  /\ UNCHANGED <<tst, pc, reg, cph, ci, second, part, batch, own, fl, atcall, consumed, destroyed>>

\* pinned force_send after a failed replay: the value goes to the ring if a slot has been freed meanwhile
AttemptValue(t) ==
  /\ tst[t] = "live" /\ call[t] # None /\ call[t].mode = "force-value"
  /\ IF ~Full(t) THEN ring' = [ring EXCEPT ![t] = Append(@, call[t].cmd)] /\ UNCHANGED pend
                 ELSE pend' = [pend EXCEPT ![t] = Append(@, call[t].cmd)] /\ UNCHANGED ring
  /\ call' = [call EXCEPT ![t] = None]
  /\ UNCHANGED <<tst, pc, reg, cph, ci, second, part, batch, own, fl, atcall, consumed, lost, destroyed>>

BeginExit(t) ==
  /\ tst[t] = "live" /\ call[t] = None /\ pc[t] > Len(Prog[t]) /\ t \in Exits
  /\ tst' = [tst EXCEPT ![t] = "exiting"]
  /\ UNCHANGED <<pc, call, ring, pend, reg, cph, ci, second, part, batch, own, fl, atcall, consumed, lost, destroyed>>

\* Sender::drop: flush the overflow list, one push attempt per step; then the producer half is released
ExitStep(t) ==
  /\ tst[t] = "exiting"
  /\ IF pend[t] = <<>>
     THEN tst' = [tst EXCEPT ![t] = "dead"] /\ UNCHANGED <<ring, pend, lost>>
     ELSE IF ~Full(t)
     THEN /\ ring' = [ring EXCEPT ![t] = Append(@, Head(pend[t]))]
          /\ pend' = [pend EXCEPT ![t] = Tail(@)] /\ UNCHANGED <<tst, lost>>
     ELSE IF FixExitOrder
     THEN \* nothing queued behind a command that did not fit may get through
          /\ lost' = lost \cup Rng(pend[t]) /\ pend' = [pend EXCEPT ![t] = <<>>] /\ UNCHANGED <<tst, ring>>
     ELSE /\ lost' = lost \cup {Head(pend[t])} /\ pend' = [pend EXCEPT ![t] = Tail(@)] /\ UNCHANGED <<tst, ring>>
  /\ UNCHANGED <<pc, call, reg, cph, ci, second, part, batch, own, fl, atcall, consumed, destroyed>>

----------------------------------------------------------------------------
(* collector *)

\* flush() is called: a helper thread is spawned which waits for GLOBAL_COLLECTOR
FlushCall(n) ==
  /\ fl[n] = "idle"
  /\ fl' = [fl EXCEPT ![n] = "waiting"]
  /\ atcall' = [atcall EXCEPT ![n] = UNION {Rng(ring[t]) : t \in Threads}]
  /\ UNCHANGED <<tst, pc, call, ring, pend, reg, cph, ci, second, part, batch, own, consumed, lost, destroyed>>

Enter(o) ==
  /\ cph = "idle"
  /\ own' = o
  /\ IF reg = <<>> THEN cph' = "process" /\ ci' = 0 ELSE cph' = "pop" /\ ci' = 1
  /\ second' = FALSE /\ part' = <<>>

\* the background thread's timer fires
CycleBegin ==
  /\ Enter(0)
  /\ UNCHANGED <<tst, pc, call, ring, pend, reg, batch, fl, atcall, consumed, lost, destroyed>>

\* a waiting flush() gets the lock and runs a cycle of its own
FlushEnter(n) ==
  /\ fl[n] = "waiting" /\ Enter(n)
  /\ fl' = [fl EXCEPT ![n] = "running"]
  /\ UNCHANGED <<tst, pc, call, ring, pend, reg, batch, atcall, consumed, lost, destroyed>>

Cur == reg[ci]

\* rx.pop()
Pop ==
  /\ cph = "pop"
  /\ IF ring[Cur] # <<>>
     THEN /\ part' = Append(part, Head(ring[Cur])) /\ ring' = [ring EXCEPT ![Cur] = Tail(@)] /\ UNCHANGED <<cph, second>>
     ELSE /\ cph' = "abandon" /\ UNCHANGED <<part, ring, second>>
  /\ UNCHANGED <<tst, pc, call, pend, reg, ci, batch, own, fl, atcall, consumed, lost, destroyed>>

\* the receiver at ci is finished with (kept or removed): go on with the next one or process the batch
NextRx(keep, b) ==
  LET reg1 == IF keep THEN reg ELSE [i \in 1..(Len(reg) - 1) |-> IF i < ci THEN reg[i] ELSE reg[i + 1]]
      nxt == IF keep THEN ci + 1 ELSE ci IN
  /\ reg' = reg1 /\ batch' = b /\ part' = <<>> /\ second' = FALSE
  /\ IF nxt > Len(reg1) THEN cph' = "process" /\ ci' = 0 ELSE cph' = "pop" /\ ci' = nxt

\* rx.is_abandoned()
Abandon ==
  /\ cph = "abandon"
  /\ IF tst[Cur] # "dead"
     THEN NextRx(TRUE, batch \o part) /\ UNCHANGED <<ring, destroyed>>                  \* Ok(None): channel is empty
     ELSE IF FixRecv
     THEN /\ cph' = "repop" /\ batch' = batch \o part /\ part' = <<>>
          /\ UNCHANGED <<reg, ci, second, ring, destroyed>>
     ELSE \* pinned: Err(ChannelClosed) at once; what the producer pushed since the empty pop goes with the receiver
          /\ NextRx(FALSE, batch \o part)
          /\ destroyed' = destroyed \cup Rng(ring[Cur]) /\ ring' = [ring EXCEPT ![Cur] = <<>>]
  /\ UNCHANGED <<tst, pc, call, pend, own, fl, atcall, consumed, lost>>

\* the second rx.pop() after the acquire fence
Repop ==
  /\ cph = "repop"
  /\ IF ring[Cur] # <<>>
     THEN /\ part' = <<Head(ring[Cur])>> /\ ring' = [ring EXCEPT ![Cur] = Tail(@)]
          /\ cph' = "pop" /\ second' = TRUE /\ UNCHANGED <<reg, ci, batch>>
     ELSE NextRx(FALSE, batch) /\ UNCHANGED ring
  /\ UNCHANGED <<tst, pc, call, pend, own, fl, atcall, consumed, lost, destroyed>>

\* the batch is processed and reported; a flush() that owns the cycle returns
Process ==
  /\ cph = "process"
  /\ consumed' = consumed \o batch /\ batch' = <<>> /\ cph' = "idle" /\ own' = 0
  /\ fl' = IF own # 0 THEN [fl EXCEPT ![own] = "done"] ELSE fl
  /\ UNCHANGED <<tst, pc, call, ring, pend, reg, ci, second, part, atcall, lost, destroyed>>

Collector == CycleBegin \/ Pop \/ Abandon \/ Repop \/ Process
Producer(t) == Spawn(t) \/ Registered(t) \/ StartCall(t) \/ Attempt(t) \/ AttemptValue(t) \/ BeginExit(t) \/ ExitStep(t)
Flusher(n) == FlushCall(n) \/ FlushEnter(n)

Next == Collector \/ (\E t \in Threads : Producer(t)) \/ (\E n \in 1..Flushers : Flusher(n))

\* the background thread keeps running cycles, a flush helper that can take the lock does so
\* (parking_lot's mutex is eventually fair: SF), every thread keeps making progress
Fairness ==
  /\ WF_vars(Collector)
  /\ \A n \in 1..Flushers : SF_vars(FlushEnter(n))
  /\ \A t \in Threads : WF_vars(Producer(t))

Spec == Init /\ [][Next]_vars /\ Fairness

----------------------------------------------------------------------------
(* safety *)

Issued == UNION {{Cmd(t, i) : i \in 1..(IF call[t] = None THEN pc[t] - 1 ELSE pc[t] - 2)} : t \in Threads}
PartOf(t) == IF cph \in {"pop", "abandon"} /\ ci > 0 /\ ci <= Len(reg) /\ reg[ci] = t THEN part ELSE <<>>
Of(s, t) == SelectSeq(s, LAMBDA c : c[1] = t)
\* everything thread t has handed over, oldest first, wherever it is now
Pipeline(t) == Of(consumed, t) \o Of(batch, t) \o PartOf(t) \o ring[t] \o pend[t]

RingBound == \A t \in Threads : Len(ring[t]) <= K

\* every command whose call has returned is in exactly one place
Conservation ==
  /\ \A t \in Threads : \A i, j \in DOMAIN Pipeline(t) : i # j => Pipeline(t)[i] # Pipeline(t)[j]
  /\ \A c \in Issued : (c \in Rng(Pipeline(c[1]))) # (c \in lost \cup destroyed)
  /\ lost \cap destroyed = {}

\* the collector sees each thread's commands in the order of the calls
Fifo == \A t \in Threads : \A i, j \in DOMAIN Pipeline(t) : i < j => Pipeline(t)[i][2] < Pipeline(t)[j][2]

\* C01 / C08 (D1): nothing is destroyed with a receiver
NoDestroy == destroyed = {}

\* C09: "finish and cancel signals are neither dropped nor reordered while the thread lives"
ForcedKept == \A c \in lost : Prog[c[1]][c[2]] = "force" => tst[c[1]] \in {"exiting", "dead"}

\* C08: only the receiver of a dead thread is ever removed, and it is removed empty
RemovedOnlyDead == \A t \in Threads : (tst[t] \in {"live", "exiting"} => t \in Rng(reg))
                                     /\ (tst[t] = "dead" /\ t \notin Rng(reg) => ring[t] = <<>> \/ ~FixRecv)

\* C04 (D17): at thread exit nothing queued behind a dropped command gets through
ExitPrefix == \A t \in Threads : \A c \in lost : \A d \in Rng(ring[t] \o Of(batch, t) \o PartOf(t) \o Of(consumed, t)) :
                 (c[1] = t /\ Prog[t][c[2]] = "force" /\ Prog[t][d[2]] = "force") => d[2] < c[2]

TypeOK ==
  /\ cph \in {"idle", "pop", "abandon", "repop", "process"}
  /\ cph \in {"pop", "abandon", "repop"} => ci \in 1..Len(reg)
  /\ \A t \in Threads : tst[t] \in {"unborn", "starting", "live", "exiting", "dead"}

----------------------------------------------------------------------------
(* Refinement: the grain of Fastrace.tla.                                                              *)
(* Fastrace.tla has two collector steps per receiver: Col/drain ("take everything present and observe  *)
(* empty") and Col/check (read the abandoned bit: keep, look once more, or remove).  Under the mapping  *)
(* below every step of this module is such a coarse step or leaves the coarse state unchanged: the      *)
(* successful pops of a drain commute to the moment of its empty pop (what a producer pushes meanwhile  *)
(* is appended behind what has been popped).  TLC checks CoarseSpec as a property of Spec.             *)
ringC == [t \in Threads |-> IF cph = "pop" /\ reg[ci] = t THEN part \o ring[t] ELSE ring[t]]
batchC == IF cph = "pop" THEN batch ELSE batch \o part
cphC == CASE cph = "idle" -> "idle" [] cph = "process" -> "process" [] cph = "pop" /\ ~second -> "drain" [] OTHER -> "check"
coarseVars == <<ringC, batchC, cphC, reg, ci, consumed, destroyed, own>>
Without(r, i) == [j \in 1..(Len(r) - 1) |-> IF j < i THEN r[j] ELSE r[j + 1]]

CDrainLike(from) ==    \* Col/drain, and the second look of the repaired try_recv (from = "check")
  /\ cphC = from /\ cphC' = "check" /\ ci > 0 /\ reg' = reg /\ ci' = ci
  /\ (from = "check" => tst[reg[ci]] = "dead" /\ FixRecv /\ ringC[reg[ci]] # <<>>)
  /\ batchC' = batchC \o ringC[reg[ci]] /\ ringC' = [ringC EXCEPT ![reg[ci]] = <<>>]
  /\ UNCHANGED <<consumed, destroyed, own>>
CAfter == (cphC' = "drain" /\ ci' <= Len(reg')) \/ (cphC' = "process" /\ ci' = 0)
CKeep ==
  /\ cphC = "check" /\ tst[reg[ci]] # "dead" /\ reg' = reg /\ CAfter /\ (cphC' = "drain" => ci' = ci + 1)
  /\ batchC' = batchC /\ ringC' = ringC /\ UNCHANGED <<consumed, destroyed, own>>
CRemove ==
  /\ cphC = "check" /\ tst[reg[ci]] = "dead" /\ (FixRecv => ringC[reg[ci]] = <<>>)
  /\ reg' = Without(reg, ci) /\ CAfter /\ (cphC' = "drain" => ci' = ci)
  /\ destroyed' = destroyed \cup Rng(ringC[reg[ci]]) /\ ringC' = [ringC EXCEPT ![reg[ci]] = <<>>]
  /\ batchC' = batchC /\ UNCHANGED <<consumed, own>>
CEnter == cphC = "idle" /\ cphC' \in {"drain", "process"} /\ batchC' = batchC /\ ringC' = ringC /\ UNCHANGED <<reg, consumed, destroyed>>
CProcess == cphC = "process" /\ cphC' = "idle" /\ consumed' = consumed \o batchC /\ batchC' = <<>> /\ ringC' = ringC /\ UNCHANGED <<reg, destroyed>>
\* producers only append to their ring (or register a receiver at the end of the registry)
CProducer == /\ UNCHANGED <<cphC, ci, batchC, consumed, destroyed, own>>
             /\ \A t \in Threads : IsPrefix(ringC[t], ringC'[t])
             /\ IsPrefix(reg, reg')
CoarseNext == CDrainLike("drain") \/ CDrainLike("check") \/ CKeep \/ CRemove \/ CEnter \/ CProcess \/ CProducer
CoarseSpec == [][CoarseNext]_coarseVars

----------------------------------------------------------------------------
(* liveness (under Fairness) *)

InRing(c) == c \in Rng(ring[c[1]])
\* C01: what has entered a ring is processed without any further call by anybody
Delivered == \A t \in Threads : \A i \in 1..Len(Prog[t]) : InRing(Cmd(t, i)) ~> (Cmd(t, i) \in Rng(consumed))
\* every call ends up somewhere definite: consumed, refused / dropped at exit - or parked for ever on a
\* thread that lives on and never calls again (the documented limit of force_send)
Settled == \A t \in Threads : \A i \in 1..Len(Prog[t]) :
             (pc[t] > i) ~> (Cmd(t, i) \in Rng(consumed) \cup lost \/ (Cmd(t, i) \in Rng(pend[t]) /\ t \notin Exits))
\* C07: flush() returns, even when it is called while a cycle is running
FlushReturns == \A n \in 1..Flushers : (fl[n] = "waiting") ~> (fl[n] = "done")
\* C07: the only wait of a tracing call (registering the receiver during a sweep) ends
Registers == \A t \in Threads : (tst[t] = "starting") ~> (tst[t] = "live")
\* C08: a dead thread's receiver is eventually dropped
Forgotten == \A t \in Threads : (tst[t] = "dead") ~> (t \notin Rng(reg))
----------------------------------------------------------------------------
\* C01 "at the latest when a flush() called afterwards returns", as a safety property over the history
\* variable: whatever was in a ring when flush n was called has been processed when it returns - also
\* when the call overlapped a cycle that had already passed that ring
ByFlush == \A n \in 1..Flushers : fl[n] = "done" => atcall[n] \subseteq Rng(consumed) \cup destroyed
=============================================================================
