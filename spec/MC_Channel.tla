---------------------------- MODULE MC_Channel ----------------------------
EXTENDS Channel
\* two producers (the second is born during the run), one exits; a two-slot ring, so that every
\* branch of send / force_send / Sender::drop is reachable
Prog2 == (1 :> <<"send", "force", "force">>) @@ (2 :> <<"force", "send", "force">>)
ProgQ == (1 :> <<"send", "force", "force">>) @@ (2 :> <<"force">>)
Prog3 == (1 :> <<"send", "force", "send", "force">>) @@ (2 :> <<"force", "force">>) @@ (3 :> <<"send", "force">>)
=============================================================================
