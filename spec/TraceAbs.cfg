CONSTANT None = None
INIT Init
NEXT Next
POSTCONDITION Accepted
CHECK_DEADLOCK FALSE
