"""Bounded instances of Fastrace.tla per property (DESIGN.md section 3.5).  Every entry:
   name -> (instance constants, emission mode, options)."""

TREE = ["root", "child", "childl", "setlp", "dropg", "lenter", "lexit", "drop"]
ATT = ["levent", "lprops", "lwith", "sevent", "sprops", "swith"]
LC = ["lcstart", "lccollect", "lcdrop", "pushc"]
CTX = ["ctxl", "ctxs"]


def S(op, **kw):
    d = dict(op=op)
    d.update(kw)
    return d


# ---- litmus programs (fixed programs, every interleaving with the collector's steps) -------------
# names: thread t hands out 100*t+1, 100*t+2, ...
LIT_FINISH_EXIT = dict(   # a root finishes and its thread exits at once (D1)
    threads=[1], born=[1], K=4, MaxCycles=3,
    prog={1: [S("root", tr=1, smp=True), S("drop", h=101), S("exit")]})

LIT_FOREIGN_FINISH = dict(   # root created on thread 1, finished on thread 2 (D3)
    threads=[1, 2], born=[1, 2], K=4, MaxCycles=3, trackcut=True,
    prog={1: [S("root", tr=1, smp=True), S("exit", after={2: 1})],
          2: [S("drop", h=101), S("exit")]})

LIT_CHILD_OTHER_THREAD = dict(   # child finished on thread 2, then the root on thread 1 (D4)
    threads=[1, 2], born=[1, 2], K=4, MaxCycles=3, trackcut=True,
    prog={1: [S("root", tr=1, smp=True), S("drop", h=101, after={2: 2}), S("exit")],
          2: [S("child", ps=[101]), S("drop", h=201), S("exit")]})

LIT_LOCAL_SCOPE = dict(   # local spans under a scope, finished while cycles run
    threads=[1], born=[1], K=8, MaxCycles=3,
    prog={1: [S("root", tr=1, smp=True), S("setlp", h=101), S("lenter"), S("levent"), S("lexit"), S("dropg"),
              S("drop", h=101), S("exit")]})

LIT_ATTACH_OTHER_THREAD = dict(   # event attached on thread 2 before the span finishes on thread 1 (D15)
    threads=[1, 2], born=[1, 2], K=4, MaxCycles=3, trackcut=True,
    prog={1: [S("root", tr=1, smp=True), S("child", ps=[101]), S("drop", h=102, after={2: 1}), S("drop", h=101), S("exit")],
          2: [S("sevent", h=102), S("exit")]})


def with_(base, **kw):
    d = dict(base)
    d.update(kw)
    return d


INSTANCES = {
    # ---------------- litmus, transition coverage
    "lit_finish_exit": (LIT_FINISH_EXIT, "edge", {}),
    "lit_foreign_finish": (LIT_FOREIGN_FINISH, "edge", {}),
    "lit_child_other": (LIT_CHILD_OTHER_THREAD, "edge", {}),
    "lit_local_scope": (LIT_LOCAL_SCOPE, "edge", {}),
    "lit_attach_other": (LIT_ATTACH_OTHER_THREAD, "edge", {}),
    "lit_finish_exit_c": (with_(LIT_FINISH_EXIT, cancelable=True), "edge", {}),
    "lit_foreign_finish_c": (with_(LIT_FOREIGN_FINISH, cancelable=True), "edge", {}),
    "lit_child_other_c": (with_(LIT_CHILD_OTHER_THREAD, cancelable=True), "edge", {}),
    # ---------------- menus
    "par_small": (dict(threads=[1, 2], born=[1, 2], K=8, menu=["root", "child", "drop", "exit"], MaxOps=4, MaxSpans=2, MaxRoots=1,
                       MaxCycles=2), "terminal", {}),
    "seq_tree": (dict(menu=TREE + ["child2"], MaxOps=5, MaxSpans=3, MaxRoots=2, MaxTraces=2, MaxScopes=2, MaxLocal=2, MaxCycles=1),
                 "terminal", {}),
    "seq_att": (dict(menu=["root", "child", "setlp", "dropg", "lenter", "lexit", "drop"] + ATT, MaxOps=5, MaxSpans=2, MaxRoots=1,
                     MaxAtt=3, MaxCycles=2), "terminal", {}),
}
