"""Bounded instances of Fastrace.tla per property (DESIGN.md section 3.5).  Every entry:
   name -> (instance constants, emission mode, options)."""

TREE = ["root", "child", "childl", "setlp", "dropg", "lenter", "lexit", "drop"]
ATT = ["levent", "lprops", "lwith", "sevent", "sprops", "swith"]
LC = ["lcstart", "lccollect", "lcdrop", "pushc"]
CTX = ["ctxl", "ctxs"]


def S(op, **kw):
    d = dict(op=op)
    d.update(kw)
    return d


# ---- litmus programs (fixed programs, every interleaving with the collector's steps) -------------
# names: thread t hands out 100*t+1, 100*t+2, ...
LIT_FINISH_EXIT = dict(   # a root finishes and its thread exits at once (D1)
    threads=[1], born=[1], K=4, MaxCycles=3,
    prog={1: [S("root", tr=1, smp=True), S("drop", h=101), S("exit")]})

LIT_FOREIGN_FINISH = dict(   # root created on thread 1, finished on thread 2 (D3)
    threads=[1, 2], born=[1, 2], K=4, MaxCycles=3, trackcut=True,
    prog={1: [S("root", tr=1, smp=True), S("exit", after={2: 1})],
          2: [S("drop", h=101), S("exit")]})

LIT_CHILD_OTHER_THREAD = dict(   # child finished on thread 2, then the root on thread 1 (D4)
    threads=[1, 2], born=[1, 2], K=4, MaxCycles=3, trackcut=True,
    prog={1: [S("root", tr=1, smp=True), S("drop", h=101, after={2: 2}), S("exit")],
          2: [S("child", ps=[101]), S("drop", h=201), S("exit")]})

LIT_LOCAL_SCOPE = dict(   # local spans under a scope, finished while cycles run
    threads=[1], born=[1], K=8, MaxCycles=3,
    prog={1: [S("root", tr=1, smp=True), S("setlp", h=101), S("lenter"), S("levent"), S("lexit"), S("dropg"),
              S("drop", h=101), S("exit")]})

LIT_ATTACH_OTHER_THREAD = dict(   # event attached on thread 2 before the span finishes on thread 1 (D15)
    threads=[1, 2], born=[1, 2], K=4, MaxCycles=3, trackcut=True,
    prog={1: [S("root", tr=1, smp=True), S("child", ps=[101]), S("drop", h=102, after={2: 1}), S("drop", h=101), S("exit")],
          2: [S("sevent", h=102), S("exit")]})


def with_(base, **kw):
    d = dict(base)
    d.update(kw)
    return d


INSTANCES = {
    # ---------------- litmus, transition coverage
    "lit_finish_exit": (LIT_FINISH_EXIT, "edge", {}),
    "lit_foreign_finish": (LIT_FOREIGN_FINISH, "edge", {}),
    "lit_child_other": (LIT_CHILD_OTHER_THREAD, "edge", {}),
    "lit_local_scope": (LIT_LOCAL_SCOPE, "edge", {}),
    "lit_attach_other": (LIT_ATTACH_OTHER_THREAD, "edge", {}),
    "lit_finish_exit_c": (with_(LIT_FINISH_EXIT, cancelable=True), "edge", {}),
    "lit_foreign_finish_c": (with_(LIT_FOREIGN_FINISH, cancelable=True), "edge", {}),
    "lit_child_other_c": (with_(LIT_CHILD_OTHER_THREAD, cancelable=True), "edge", {}),
    # ---------------- menus
    "par_small": (dict(threads=[1, 2], born=[1, 2], K=8, menu=["root", "child", "drop", "exit"], MaxOps=4, MaxSpans=2, MaxRoots=1,
                       MaxCycles=2), "terminal", {}),
    "seq_tree": (dict(menu=TREE + ["child2"], MaxOps=5, MaxSpans=3, MaxRoots=2, MaxTraces=2, MaxScopes=2, MaxLocal=2, MaxCycles=1),
                 "terminal", {}),
    "seq_att": (dict(menu=["root", "child", "setlp", "dropg", "lenter", "lexit", "drop"] + ATT, MaxOps=5, MaxSpans=2, MaxRoots=1,
                     MaxAtt=3, MaxCycles=2), "terminal", {}),
}


# ---------------- menu-driven instances, one thread ------------------------------------------------
def seq(menu, **kw):
    d = dict(threads=[1], born=[1], K=16, menu=menu, MaxCycles=1)
    d.update(kw)
    return d


INSTANCES.update({
    # C02: tree shapes
    "tree4": (seq(TREE + ["child2"], MaxOps=4, MaxSpans=3, MaxRoots=2, MaxTraces=2), "terminal", {}),
    "tree5": (seq(TREE + ["child2"], MaxOps=5, MaxSpans=3, MaxRoots=2, MaxTraces=2), "terminal", {}),
    "tree6": (seq(TREE + ["child2"], MaxOps=6, MaxSpans=3, MaxRoots=2, MaxTraces=2, MaxScopes=3, MaxLocal=3, MaxCycles=1), "terminal", {}),
    # C05: sampling decision through every route
    "smp4": (seq(["root", "child", "child2", "childl", "setlp", "dropg", "lenter", "lexit", "levent", "sevent", "drop", "ctxs", "ctxl"],
                 smp=[True, False], MaxOps=4, MaxSpans=3, MaxRoots=2, MaxTraces=2, MaxAtt=1), "terminal", {}),
    "smp5": (seq(["root", "child", "child2", "childl", "setlp", "dropg", "lenter", "lexit", "levent", "sevent", "drop", "ctxs", "ctxl"],
                 smp=[True, False], MaxOps=5, MaxSpans=3, MaxRoots=2, MaxTraces=2, MaxAtt=1), "terminal", {}),
    # C06: attachments through the three routes, cycles anywhere
    "att4": (seq(["root", "child", "setlp", "dropg", "lenter", "lexit", "drop"] + ATT, MaxOps=4, MaxSpans=2, MaxAtt=2, MaxCycles=2), "terminal", {}),
    "att5": (seq(["root", "child", "setlp", "dropg", "lenter", "lexit", "drop"] + ATT, MaxOps=5, MaxSpans=2, MaxAtt=3, MaxCycles=2), "terminal", {}),
    "att4_c": (seq(["root", "child", "setlp", "dropg", "lenter", "lexit", "drop"] + ATT, MaxOps=4, MaxSpans=2, MaxAtt=2, MaxCycles=2, cancelable=True), "terminal", {}),
    # C10: scopes nest and restore (no cycles needed until the end)
    "scope5": (seq(["root", "setlp", "dropg", "lcstart", "lcdrop", "lenter", "lexit", "ctxl", "childl"], MaxOps=5, MaxSpans=2, MaxScopes=3,
                   MaxLocal=2, MaxCycles=0), "terminal", {}),
    "scope6": (seq(["root", "setlp", "dropg", "lcstart", "lcdrop", "lenter", "lexit", "ctxl", "childl"], MaxOps=6, MaxSpans=2, MaxScopes=3,
                   MaxLocal=3, MaxCycles=0), "terminal", {}),
    # C11: contexts
    "ctx4": (seq(["root", "child", "child2", "child2r", "childm", "mknoop", "setlp", "dropg", "lenter", "lexit", "ctxl", "ctxs", "rootctx", "drop"],
                 MaxOps=4, MaxSpans=3, MaxRoots=2, MaxTraces=2, MaxCycles=0, smp=[True, False]), "terminal", {}),
    "ctx5": (seq(["root", "child", "child2", "child2r", "childm", "mknoop", "setlp", "dropg", "lenter", "lexit", "ctxl", "ctxs", "rootctx", "drop"],
                 MaxOps=5, MaxSpans=3, MaxRoots=2, MaxTraces=2, MaxCycles=0, smp=[True, False]), "terminal", {}),
    # C17: detached local spans
    "lc5": (seq(["root", "lcstart", "lccollect", "lenter", "lexit", "levent", "lprops", "pushc", "drop"], MaxOps=5, MaxSpans=2, MaxRoots=2,
                MaxTraces=2, MaxAtt=2, MaxLs=1, MaxCycles=1), "terminal", {}),
    "lc6": (seq(["root", "lcstart", "lccollect", "lenter", "lexit", "levent", "lprops", "pushc", "drop"], MaxOps=6, MaxSpans=2, MaxRoots=2,
                MaxTraces=2, MaxAtt=2, MaxLs=1, MaxCycles=1), "terminal", {}),
    # C07 / C16: hostile calls
    "hostile4": (seq(["root", "mknoop", "child", "childm", "childl", "setlp", "dropg", "lenter", "lexit", "levent", "lprops", "lwith", "lpropsre",
                      "lwithre", "sprops", "swith", "sevent", "cancel", "ctxl", "ctxs", "drop", "lcstart", "lcdrop"],
                     MaxOps=4, MaxSpans=3, MaxAtt=2, MaxCycles=0, K=1, QCap=2, SCap=1, MaxScopes=2), "terminal", {}),
    "notready4": (seq(["root", "child", "childl", "setlp", "dropg", "lenter", "lexit", "levent", "lprops", "lwith", "sprops", "swith", "sevent",
                       "cancel", "ctxl", "ctxs", "drop"], MaxOps=4, MaxSpans=3, MaxAtt=3, MaxCycles=1, ready=False, smp=[True, False], probe_ctx=True), "terminal", {}),
    # C04 / C09: cancel and overload
    "cancel4_c": (dict(threads=[1, 2], born=[1, 2], K=8, menu=["root", "child", "cancel", "drop", "exit"], MaxOps=4, MaxSpans=2, MaxCycles=2,
                       cancelable=True, trackcut=True), "terminal", {}),
    "cancel4_d": (seq(["root", "child", "cancel", "drop", "sevent", "levent", "setlp", "dropg"], MaxOps=4, MaxSpans=2, MaxAtt=1, MaxCycles=2), "terminal", {}),
    "over5_c": (seq(["root", "cancel", "drop", "sevent", "exit"], K=2, MaxOps=5, MaxSpans=2, MaxRoots=2, MaxAtt=3, MaxCycles=3, cancelable=True),
                "terminal", {}),
    "over5_d": (seq(["root", "child", "drop", "sevent", "exit"], K=2, MaxOps=5, MaxSpans=2, MaxRoots=2, MaxAtt=3, MaxCycles=3), "terminal", {}),
    "qlimit5": (seq(["root", "setlp", "dropg", "lenter", "lexit", "levent", "lprops", "drop"], QCap=2, MaxOps=6, MaxSpans=1, MaxAtt=3, MaxLocal=3,
                    MaxCycles=0), "terminal", {}),
    # C03 / C08: two threads, cancelable / retention
    "par4_c": (dict(threads=[1, 2], born=[1, 2], K=8, menu=["root", "child", "drop", "exit"], MaxOps=4, MaxSpans=2, MaxCycles=2, cancelable=True,
                    trackcut=True), "terminal", {}),
    "par4": (dict(threads=[1, 2], born=[1, 2], K=8, menu=["root", "child", "drop", "exit"], MaxOps=4, MaxSpans=2, MaxCycles=2, trackcut=True),
             "terminal", {}),
})

LIT_OVERFLOW_CANCEL = dict(   # cancel and finish parked in the overflow list, replayed by a later call (D2)
    threads=[1], born=[1], K=2, MaxCycles=3, cancelable=True,
    prog={1: [S("root", tr=1, smp=True), S("child", ps=[101]), S("drop", h=102), S("cancel", h=101), S("drop", h=101),
              S("root", tr=2, smp=True), S("drop", h=103), S("exit")]})
LIT_OVERFLOW_FINISH = dict(   # two roots finish while the queue is full; recovery interleaved with cycles
    threads=[1], born=[1], K=2, MaxCycles=3,
    prog={1: [S("root", tr=1, smp=True), S("root", tr=2, smp=True), S("sevent", h=101), S("drop", h=101), S("drop", h=102),
              S("root", tr=1, smp=True), S("sevent", h=104), S("drop", h=104), S("exit")]})
INSTANCES.update({
    "lit_overflow_cancel": (LIT_OVERFLOW_CANCEL, "edge", {}),
    "lit_overflow_finish": (LIT_OVERFLOW_FINISH, "edge", {}),
    "lit_overflow_finish_c": (with_(LIT_OVERFLOW_FINISH, cancelable=True), "edge", {}),
})

INSTANCES.update({
    # attachments to a span with two parents in one trace (known finding D16)
    "twin4": (seq(["root", "child", "child2", "sevent", "sprops", "drop"], MaxOps=5, MaxSpans=3, MaxAtt=2, MaxCycles=1), "terminal", {}),
    # bigger two-thread menus (thorough)
    "par5": (dict(threads=[1, 2], born=[1, 2], K=8, menu=["root", "child", "drop", "exit", "flush"], MaxOps=5, MaxSpans=3, MaxCycles=2, MaxFlush=1,
                  trackcut=True), "terminal", {}),
    "par5_c": (dict(threads=[1, 2], born=[1, 2], K=8, menu=["root", "child", "drop", "exit", "flush"], MaxOps=5, MaxSpans=3, MaxCycles=2, MaxFlush=1,
                    cancelable=True, trackcut=True), "terminal", {}),
    "cancel5_c": (dict(threads=[1, 2], born=[1, 2], K=8, menu=["root", "child", "cancel", "drop", "exit"], MaxOps=5, MaxSpans=3, MaxCycles=2,
                       cancelable=True, trackcut=True), "terminal", {}),
    "over6_c": (seq(["root", "child", "cancel", "drop", "exit"], K=2, MaxOps=6, MaxSpans=3, MaxRoots=2, MaxCycles=3, cancelable=True), "terminal", {}),
    "hostile5": (seq(["root", "mknoop", "child", "childm", "childl", "setlp", "dropg", "lenter", "lexit", "levent", "lprops", "lwith", "lpropsre",
                      "lwithre", "sprops", "swith", "sevent", "cancel", "ctxl", "ctxs", "drop", "lcstart", "lcdrop"],
                     MaxOps=5, MaxSpans=3, MaxAtt=2, MaxCycles=0, K=1, QCap=2, SCap=1, MaxScopes=2), "terminal", {}),
    # random walks through larger instances
    "sim_par3": (dict(threads=[1, 2, 3], born=[1, 2], K=8, menu=["root", "child", "child2", "setlp", "dropg", "lenter", "lexit", "levent", "sevent",
                                                                     "drop", "exit", "flush", "spawn"],
                      MaxOps=12, MaxSpans=5, MaxRoots=2, MaxTraces=2, MaxAtt=3, MaxCycles=4, MaxFlush=1, trackcut=True),
                 "terminal", dict(simulate=dict(num=6000, depth=120))),
    "sim_par3_c": (dict(threads=[1, 2, 3], born=[1, 2], K=8, menu=["root", "child", "child2", "setlp", "dropg", "lenter", "lexit", "levent", "sevent",
                                                                       "cancel", "drop", "exit", "flush", "spawn"],
                        MaxOps=12, MaxSpans=5, MaxRoots=2, MaxTraces=2, MaxAtt=3, MaxCycles=4, MaxFlush=1, cancelable=True, trackcut=True),
                   "terminal", dict(simulate=dict(num=6000, depth=120))),
    "sim_tree": (seq(TREE + ["child2", "lcstart", "lccollect", "lcdrop", "pushc"], MaxOps=14, MaxSpans=6, MaxRoots=3, MaxTraces=2, MaxScopes=4,
                     MaxLocal=4, MaxLs=2, MaxCycles=3), "terminal", dict(simulate=dict(num=6000, depth=120))),
    "sim_att": (seq(["root", "child", "setlp", "dropg", "lenter", "lexit", "drop"] + ATT, MaxOps=14, MaxSpans=4, MaxAtt=8, MaxScopes=3, MaxLocal=3,
                    MaxCycles=4), "terminal", dict(simulate=dict(num=6000, depth=120))),
})

# C18: the same programs with a pause before every call, so that intervals dwarf the tolerances
INSTANCES.update({
    "time_tree4": (dict(INSTANCES["tree4"][0], op_sleep_us=150), "terminal", {}),
    "time_lc5": (dict(INSTANCES["lc5"][0], op_sleep_us=150), "terminal", {}),
    "time_att4": (dict(INSTANCES["att4"][0], op_sleep_us=150), "terminal", {}),
    # spans whose parents are partly in unsampled traces (seeded S60: the end is stamped only when every item is sampled)
    "time_smp4": (dict(INSTANCES["tree4"][0], op_sleep_us=150, smp=[True, False], menu=["root", "child", "child2", "drop"]), "terminal", {}),
})

# ---------------- adapters (C13, C14)
def pollinst(kinds, **kw):
    d = dict(threads=[1], born=[1], K=8, menu=["root", "child", "fnew", "fpoll", "fdrop", "ctxl", "drop"], MaxOps=5, MaxSpans=2, MaxRoots=1,
             MaxFuts=1, MaxPolls=3, adapters=kinds, inner=["none", "ls", "ev", "ctx"], MaxCycles=2)
    d.update(kw)
    return d


INSTANCES.update({
    "poll_fut_c": (pollinst(["fut"], cancelable=True), "terminal", {}),
    "poll_fut_d": (pollinst(["fut"]), "terminal", {}),
    "poll_fut2_c": (pollinst(["fut"], cancelable=True, threads=[1, 2], born=[1, 2], MaxOps=4, inner=["none", "ls"], trackcut=True), "terminal", {}),
    "poll_eop": (pollinst(["eop"], menu=["root", "setlp", "dropg", "fnew", "fpoll", "fdrop", "ctxl", "drop"], MaxScopes=1), "terminal", {}),
    "poll_str_c": (pollinst(["str"], cancelable=True), "terminal", {}),
    "poll_snk_c": (pollinst(["snk"], cancelable=True, MaxPolls=5, menu=["root", "fnew", "fpoll", "fdrop", "ctxl", "drop"], MaxSpans=1, MaxOps=7, MaxCycles=1), "terminal", {}),
    "poll_ss_d": (pollinst(["str", "snk"], MaxOps=4), "terminal", {}),
})

# C16: built without the `enable` feature
INSTANCES.update({
    "disabled4": (seq(["root", "child", "child2", "childl", "setlp", "dropg", "lenter", "lexit", "levent", "lprops", "lwith", "sprops", "swith", "sevent",
                       "cancel", "ctxl", "ctxs", "drop", "lcstart", "lccollect", "pushc"], MaxOps=4, MaxSpans=3, MaxAtt=3, MaxCycles=0, MaxLs=1,
                      enabled=False), "terminal", {}),
})

INSTANCES.update({
    "poll_fut6_c": (pollinst(["fut"], cancelable=True, MaxOps=6, MaxPolls=4), "terminal", {}),
    "poll_ss6_c": (pollinst(["str", "snk"], cancelable=True, MaxOps=6, MaxPolls=4), "terminal", {}),
})

# multi-parent spans in cancelable mode / with cancel (seeded changes S01, S02), local limits with context queries (S07)
INSTANCES.update({
    "tree4_c": (seq(TREE + ["child2"], MaxOps=4, MaxSpans=3, MaxRoots=2, MaxTraces=2, MaxCycles=2, cancelable=True), "terminal", {}),
    "multi_cancel_c": (seq(["root", "child2", "cancel", "drop", "sevent"], MaxOps=5, MaxSpans=3, MaxRoots=2, MaxTraces=2, MaxAtt=1, MaxCycles=2,
                           cancelable=True), "terminal", {}),
    "scope_qfull": (seq(["root", "setlp", "dropg", "lenter", "lexit", "levent", "ctxl", "childl", "drop"], QCap=2, MaxOps=6, MaxSpans=2, MaxAtt=2,
                        MaxLocal=3, MaxScopes=2, MaxCycles=0), "terminal", {}),
})

# a thread is born (registers its receiver) while the collector sweeps the registry (seeded change S04)
LIT_SPAWN_SWEEP = dict(
    threads=[1, 2], born=[1], K=4, MaxCycles=3, menu=["spawn"],
    prog={1: [S("root", tr=1, smp=True), S("drop", h=101), S("exit")],
          2: [S("root", tr=2, smp=True), S("drop", h=201), S("exit")]})
INSTANCES.update({
    "lit_spawn_sweep": (LIT_SPAWN_SWEEP, "edge", {}),
    "lit_spawn_sweep_c": (with_(LIT_SPAWN_SWEEP, cancelable=True), "edge", {}),
})

INSTANCES.update({
    # one-entry local queues: the limit is hit after a single entry (S07)
    "scope_q1": (seq(["root", "setlp", "dropg", "lenter", "lexit", "levent", "ctxl", "childl", "drop"], QCap=1, MaxOps=5, MaxSpans=2, MaxAtt=1,
                     MaxLocal=2, MaxScopes=1, MaxCycles=0), "terminal", {}),
})

# C10 / C11 / C13: the harness asks for the local context after every call
for _n in ["scope5", "scope6", "scope_q1", "scope_qfull", "ctx4", "ctx5", "poll_fut_d", "poll_eop", "poll_ss_d"]:
    INSTANCES[_n] = (dict(INSTANCES[_n][0], probe_ctx=True), INSTANCES[_n][1], INSTANCES[_n][2])
# ... and SpanContext::from_span of every live handle (pure queries leave the model's state unchanged, so
# behaviours that differ only in where they ask collapse into one terminal state: the harness asks everywhere)
for _n in ["ctx4", "ctx5", "smp4", "smp5", "tree4", "tree5", "time_tree4", "time_smp4", "time_att4"]:
    INSTANCES[_n] = (dict(INSTANCES[_n][0], probe_ctx=True, probe_spans=True), INSTANCES[_n][1], INSTANCES[_n][2])

# mixed sampled / unsampled parent sets behind a local parent (seeded S09, S10)
INSTANCES.update({
    "smp_mixed": (seq(["root", "child2", "child2r", "setlp", "dropg", "childl", "lenter"], smp=[True, False], MaxOps=5, MaxSpans=4, MaxRoots=2,
                      MaxTraces=2, MaxScopes=1, MaxLocal=1, MaxCycles=0, probe_ctx=True, probe_spans=True), "terminal", {}),
})

# C10 with unsampled spans as local parents (seeded S31, S32: a scope that is never closed / never opened)
INSTANCES.update({
    "scope_smp": (seq(["root", "setlp", "dropg", "lenter", "lexit", "childl"], smp=[True, False], MaxOps=5, MaxSpans=3, MaxRoots=2,
                      MaxTraces=2, MaxScopes=2, MaxLocal=1, MaxCycles=0, probe_ctx=True, probe_spans=True), "terminal", {}),
    "scope_smp6": (seq(["root", "setlp", "dropg", "lenter", "lexit", "levent", "childl", "lcstart", "lccollect"], smp=[True, False], MaxOps=6, MaxSpans=3, MaxRoots=2,
                       MaxTraces=2, MaxScopes=3, MaxLocal=1, MaxAtt=1, MaxLs=1, MaxCycles=0, probe_ctx=True, probe_spans=True), "terminal", {}),
})


# ---------------- hand-written behaviours the model cannot express ---------------------------------
# C07: tracing calls from a thread-local destructor. `early`: the object is older than fastrace's own
# thread-locals on that thread, so it is destroyed after them (every call must degrade to a no-op);
# `late`: destroyed before them (the calls are ordinary calls made while the thread exits).
def _c(op, **kw):
    d = dict(ev="call", op=op)
    d.update(kw)
    return d


_DTOR_OPS = [
    _c("root", h=191, tr=9, smp=True), _c("ctxs", h=191), _c("setlp", g=192, h=191), _c("lenter", l=193),
    _c("levent", evt=dict(name=194, props=[])), _c("lprops", kvs=[[195, 195]]), _c("lexit", l=193), _c("childl", h=196), _c("ctxl"),
    _c("dropg", g=192), _c("child", h=197, ps=[191], multi=False), _c("sevent", h=197, evt=dict(name=198, props=[])),
    _c("sprops", h=197, kvs=[[199, 199]]), _c("drop", h=197), _c("drop", h=196), _c("cancel", h=191), _c("drop", h=191),
    _c("lcstart", c=181), _c("lenter", l=182), _c("lexit", l=182), _c("lccollect", c=181, ls=183),
    _c("root", h=184, tr=8, smp=False), _c("drop", h=184),
]


def _teardown(when, before, extra=()):
    ops = list(_DTOR_OPS) + list(extra)
    steps = [dict(ev="spawn", t=1, dtor=dict(when=when, ops=ops))]
    steps += [dict(s, t=1) for s in before]
    steps += [dict(ev="call", t=1, op="exit"), dict(ev="cycle"), dict(ev="cycle")]
    return dict(steps=steps, prefix=True)


_BEFORE = [
    [],
    [_c("root", h=101, tr=1, smp=True), _c("drop", h=101)],
    [_c("root", h=101, tr=1, smp=True), _c("setlp", g=102, h=101), _c("lenter", l=103), _c("lexit", l=103), _c("dropg", g=102), _c("drop", h=101)],
]
EXTRA = {
    "teardown": dict(cfg=dict(K=16), behaviours=[_teardown("early", b, [_c("ctxrandom")]) for b in _BEFORE] + [_teardown("late", b) for b in _BEFORE]),
    "teardown_c": dict(cfg=dict(K=16, cancelable=True), behaviours=[_teardown("early", b) for b in _BEFORE] + [_teardown("late", b) for b in _BEFORE]),
    "teardown_k1": dict(cfg=dict(K=1), behaviours=[_teardown("early", b) for b in _BEFORE] + [_teardown("late", b) for b in _BEFORE]),
}

# C08 churn: the same behaviours 150 times in one process; whatever the collector keeps per finished
# trace (also outside what the statistics hook shows) makes the allocated bytes at quiescence grow.
_LATE1 = [dict(ev="spawn", t=1), dict(_c("root", h=101, tr=1, smp=True), t=1), dict(_c("child", h=102, ps=[101], multi=False), t=1),
          dict(_c("drop", h=101), t=1), dict(ev="push", t=1), dict(ev="cycle"),
          dict(_c("sevent", h=102, evt=dict(name=103, props=[])), t=1), dict(_c("sprops", h=102, kvs=[[104, 104]]), t=1), dict(ev="cycle"),
          dict(_c("drop", h=102), t=1), dict(_c("exit"), t=1), dict(ev="cycle"), dict(ev="cycle")]
_LATE2 = [dict(ev="spawn", t=1), dict(_c("root", h=101, tr=1, smp=True), t=1), dict(_c("setlp", g=102, h=101), t=1), dict(_c("drop", h=101), t=1),
          dict(ev="push", t=1), dict(ev="cycle"), dict(_c("levent", evt=dict(name=103, props=[])), t=1), dict(_c("lenter", l=104), t=1),
          dict(_c("lexit", l=104), t=1), dict(_c("dropg", g=102), t=1), dict(_c("exit"), t=1), dict(ev="cycle"), dict(ev="cycle")]
_LATE3 = [dict(ev="spawn", t=1), dict(ev="spawn", t=2), dict(_c("root", h=101, tr=1, smp=True), t=1), dict(_c("child", h=102, ps=[101], multi=False), t=1),
          dict(_c("sevent", h=102, evt=dict(name=203, props=[])), t=2), dict(_c("drop", h=102), t=1), dict(ev="cycle"), dict(_c("cancel", h=101), t=2),
          dict(_c("drop", h=101), t=1), dict(ev="push", t=1), dict(_c("exit"), t=1), dict(_c("exit"), t=2), dict(ev="cycle"), dict(ev="cycle")]
EXTRA["churn_late"] = dict(cfg=dict(K=16, churn=True), repeat=150, behaviours=[dict(steps=_LATE1, prefix=True), dict(steps=_LATE2, prefix=True)])
EXTRA["churn_mixed"] = dict(cfg=dict(K=16, churn=True), repeat=150, behaviours=[dict(steps=_LATE3, prefix=True), dict(steps=_LATE1, prefix=True)])

# where most calls are no-ops, programs are told apart by the calls they make (see `view` in Fastrace.tla)
for _n in ["notready4", "disabled4", "hostile4", "hostile5", "qlimit5", "scope_q1", "scope_qfull"]:
    INSTANCES[_n] = (dict(INSTANCES[_n][0], distinct_ops=True), INSTANCES[_n][1], INSTANCES[_n][2])

# scopes closed / collected while local spans recorded in them are still open (C17, C18; seeded S16, S17)
INSTANCES.update({
    "lc_open": (seq(["root", "lcstart", "lenter", "lexit", "levent", "collectopen", "lccollect", "pushc", "setlp", "drop"], MaxOps=6, MaxSpans=1, MaxRoots=1,
                    MaxAtt=1, MaxLs=1, MaxLocal=3, MaxScopes=1, MaxCycles=1, op_sleep_us=150), "terminal", {}),
})

INSTANCES.update({
    "scope_open": (seq(["root", "setlp", "lcstart", "lenter", "lexit", "collectopen", "pushc"], MaxOps=6, MaxSpans=1, MaxRoots=1, MaxLs=1, MaxLocal=3,
                       MaxScopes=1, MaxCycles=0, op_sleep_us=200), "terminal", {}),
})

# LocalSpans::to_span_records against what pushing the same set delivers (C17)
INSTANCES.update({
    "torec5": (seq(["root", "lcstart", "lenter", "lexit", "levent", "lprops", "lccollect", "collectopen", "torec", "pushc", "drop"], MaxOps=6, MaxSpans=1,
                   MaxRoots=1, MaxAtt=2, MaxLs=1, MaxLocal=2, MaxScopes=1, MaxCycles=0, op_sleep_us=100), "terminal", {}),
})

# a captured set under several parents, in one trace and in two (C17's "N identical subtrees")
INSTANCES.update({
    "lc_multi": (seq(["root", "child2", "lcstart", "lenter", "levent", "lccollect", "collectopen", "pushc", "torec"], MaxOps=7, MaxSpans=3,
                     MaxRoots=2, MaxTraces=2, MaxAtt=1, MaxLs=1, MaxLocal=1, MaxScopes=1, MaxCycles=1), "terminal", {}),
    "lc_multi_q": (seq(["root", "child2", "lcstart", "lenter", "lccollect", "collectopen", "pushc"], MaxOps=7, MaxSpans=3,
                       MaxRoots=2, MaxTraces=2, MaxLs=1, MaxLocal=1, MaxScopes=1, MaxCycles=0), "terminal", {}),
})

# prefix instances: every behaviour begins with the same calls (not counted in MaxOps), the menu takes over afterwards
INSTANCES.update({
    # attachments through the local context, nested local spans (seeded S27: consecutive add_property calls merged across spans)
    "latt_deep": (dict(seq(["lenter", "lexit", "lprops", "lwith", "levent"], MaxOps=6, MaxSpans=1, MaxRoots=1, MaxLocal=2, MaxAtt=3, MaxScopes=1, MaxCycles=0),
                       prefix=True, prog={1: [S("root", tr=1, smp=True), S("setlp", h=101)]}), "terminal", {}),
})

# properties given through the handle of a local span (with_property) when the scope is at its limit: the
# span that took the last slot is a recorded span like any other (seeded wave 8: "is_recording = sampled and
# not full" in front of with_properties)
INSTANCES.update({
    "qlimit_with": (dict(seq(["lenter", "lexit", "lprops", "lwith", "levent"], QCap=2, MaxOps=6, MaxSpans=1, MaxRoots=1, MaxLocal=3, MaxAtt=3, MaxScopes=1, MaxCycles=0, distinct_ops=True),
                         prefix=True, prog={1: [S("root", tr=1, smp=True), S("setlp", h=101)]}), "terminal", {}),
})

# recovery after an overload episode: two forced commands parked on a full two-slot queue, then the queue
# drains, then ordinary finishes - "the only permitted omissions are span sets submitted while the queue was
# full", "traces started after the queue has drained are delivered completely" (seeded wave 8: send() replayed
# one parked command per call and refused while others were still parked)
INSTANCES.update({
    "over_recover": (dict(seq(["root", "child", "drop", "sevent"], K=2, MaxOps=3, MaxSpans=5, MaxRoots=3, MaxTraces=2, MaxAtt=2, MaxCycles=3),
                          prefix=True, prog={1: [S("root", tr=1, smp=True), S("root", tr=2, smp=True), S("child", ps=[101]), S("drop", h=101), S("drop", h=102)]}),
                     "terminal", {}),
})

# laziness under the scope of a span that belongs to no trace although it is not the no-op span itself
# (enter_with_parents over no-op parents only: an empty collect token) - seeded wave 8: such a scope
# registered "without a token", which reads as "recording"
INSTANCES.update({
    "lazy_noop": (dict(seq(["lprops", "lwith", "lenter", "lexit", "levent", "childl"], MaxOps=3, MaxSpans=4, MaxRoots=1, MaxLocal=2, MaxAtt=3, MaxScopes=1, MaxCycles=0,
                           distinct_ops=True),
                       prefix=True, prog={1: [S("mknoop"), S("childm", ps=[101]), S("setlp", h=102)]}), "terminal", {}),
})

# adapters polled while the thread already has a (sampled) local parent, around sampled and unsampled spans
# (seeded S36: poll skips set_local_parent for an unsampled span, so the outer parent shows through)
INSTANCES.update({
    "poll_under_lp": (dict(pollinst(["fut", "str"], menu=["fnew", "fpoll", "fdrop", "ctxl"], MaxOps=4, MaxSpans=3, MaxRoots=3, MaxTraces=2, MaxScopes=2,
                                    inner=["none", "ls", "ctx"], MaxCycles=0, probe_ctx=True),
                           prefix=True, prog={1: [S("root", tr=1, smp=True), S("setlp", h=101), S("root", tr=2, smp=False), S("root", tr=3, smp=True)]}),
                      "terminal", {}),
})


# the inner future holds a span of its own across polls: released when it completes, or when the adapter is
# dropped - before the adapter's span finishes (seeded S35: fields reordered, span dropped first)
INSTANCES.update({
    "poll_hold_c": (pollinst(["fut", "str"], cancelable=True, inner=["none", "hold", "ls"], menu=["root", "fnew", "fpoll", "fdrop", "drop"], MaxSpans=3,
                             MaxOps=5, MaxPolls=3, MaxCycles=2), "terminal", {}),
    "poll_hold_d": (pollinst(["fut", "snk"], inner=["none", "hold", "ev"], menu=["root", "fnew", "fpoll", "fdrop", "drop"], MaxSpans=3,
                             MaxOps=5, MaxPolls=3, MaxCycles=1), "terminal", {}),
})


# a captured set with events and properties under two parents whose traces are processed in the same cycle
# (seeded S58: attachments mounted across the copies)
INSTANCES.update({
    "lc_multi_p": (dict(seq(["lenter", "lexit", "levent", "lprops", "lccollect", "pushc"], MaxOps=6, MaxSpans=2, MaxRoots=2, MaxTraces=2, MaxLocal=2,
                            MaxAtt=2, MaxLs=1, MaxScopes=1, MaxCycles=1),
                        prefix=True, prog={1: [S("root", tr=1, smp=True), S("root", tr=2, smp=True), S("lcstart")]}), "terminal", {}),
})


# a captured set with events pushed under spans that outlive their roots: the copies travel the LATE path
# (default configuration: "stale" sets of traces that are already committed), several of them in one cycle
# (seeded wave 9: all late sets of a cycle post-processed with one shared attachment map)
INSTANCES.update({
    "lc_late_p": (dict(seq(["pushc", "drop"], MaxOps=4, MaxSpans=4, MaxRoots=2, MaxTraces=2, MaxLocal=2, MaxAtt=2, MaxLs=1, MaxScopes=1, MaxCycles=2),
                       prefix=True, prog={1: [S("root", tr=1, smp=True), S("root", tr=2, smp=True), S("child", ps=[101]), S("child", ps=[102]),
                                              S("lcstart"), S("lenter"), S("levent"), S("lprops"), S("lexit"), S("lccollect"),
                                              S("drop", h=101), S("drop", h=102)]}), "edge", {}),
})


# more local-parent scopes nested than the span stack holds (C09 "when a local scope exceeds its limits"; seeded S72:
# a refused scope silences the enclosing one)
INSTANCES.update({
    "slimit5": (dict(seq(["setlp", "dropg", "lenter", "lexit", "levent", "childl"], SCap=1, MaxOps=5, MaxSpans=2, MaxRoots=1, MaxScopes=3, MaxLocal=2,
                         MaxAtt=1, MaxCycles=0, distinct_ops=True, probe_ctx=True),
                     prefix=True, prog={1: [S("root", tr=1, smp=True), S("setlp", h=101)]}), "terminal", {}),
})

# attachments through the handle of a span whose parents are in a sampled and an unsampled trace (seeded S73: a fast path
# that asks whether *all* items are sampled)
INSTANCES.update({
    "att_mixed": (dict(seq(["sevent", "sprops", "swith", "drop"], MaxOps=4, MaxSpans=3, MaxRoots=2, MaxTraces=2, MaxAtt=3, MaxCycles=1, probe_ctx=True, probe_spans=True),
                       prefix=True, prog={1: [S("root", tr=1, smp=False), S("root", tr=2, smp=True), S("child", ps=[101, 102])]}), "terminal", {}),
    "att_mixed_r": (dict(seq(["sevent", "sprops", "swith", "drop"], MaxOps=4, MaxSpans=3, MaxRoots=2, MaxTraces=2, MaxAtt=3, MaxCycles=1, probe_ctx=True, probe_spans=True),
                         prefix=True, prog={1: [S("root", tr=1, smp=True), S("root", tr=2, smp=False), S("child", ps=[102, 101])]}), "terminal", {}),
})

# laziness under an unsampled local parent (seeded S75: the closure of LocalSpan::add_property runs although nothing records)
INSTANCES.update({
    "lazy_smp": (dict(seq(["lprops", "lwith", "lenter", "lexit", "levent", "sprops", "swith", "sevent", "childl"], MaxOps=3, MaxSpans=2, MaxRoots=1, MaxLocal=1,
                          MaxAtt=3, MaxScopes=1, MaxCycles=0, distinct_ops=True),
                      prefix=True, prog={1: [S("root", tr=1, smp=False), S("setlp", h=101)]}), "terminal", {}),
})

# parents of what is recorded in nested local scopes, five operations below a root that is the local parent
# (seeded S79, S80: a top-level event resets the parent cursor wrongly; a nested scope of the same span is skipped)
INSTANCES.update({
    "scope_deep": (dict(seq(["setlp", "dropg", "lenter", "lexit", "levent", "childl"], MaxOps=5, MaxSpans=3, MaxRoots=1, MaxScopes=3, MaxLocal=2, MaxAtt=2,
                            MaxCycles=0, probe_ctx=True, probe_spans=True),
                        prefix=True, prog={1: [S("root", tr=1, smp=True), S("setlp", h=101)]}), "terminal", {}),
})


# a LocalCollector dropped without collect() while a local span entered in it is open, then another scope
# (seeded S87: the discarded line's queue is recycled with its parent cursor)
INSTANCES.update({
    "lcdrop_open": (dict(seq(["lcstart", "lenter", "collectopen", "setlp", "dropg", "childl", "levent"], MaxOps=6, MaxSpans=2, MaxRoots=1, MaxScopes=2, MaxLocal=2,
                             MaxAtt=1, MaxLs=1, MaxCycles=0, probe_ctx=True, probe_spans=True),
                         prefix=True, prog={1: [S("root", tr=1, smp=True)]}), "terminal", {}),
})

# ... released by unwinding (seeded S88: LocalCollector::drop returns early while the thread is panicking)
for _n in ["scope5", "scope_deep", "lcdrop_open", "scope_smp"]:
    INSTANCES[_n] = (dict(INSTANCES[_n][0], unwind=True), INSTANCES[_n][1], INSTANCES[_n][2])

# set_reporter() called again while traces are open (wave 10: receivers adopted by the collector object were lost with it):
# the collector object is replaced, queues and handles stay; in the default configuration nothing recorded afterwards may
# be lost (no attachments through handles here: what is parked for a still-open span goes with the old collector)
LIT_REINSTALL = dict(
    threads=[1, 2], born=[1, 2], K=8, MaxCycles=3, MaxFlush=1, menu=["reinstall"],
    prog={1: [S("root", tr=1, smp=True), S("child", ps=[101]), S("drop", h=102), S("drop", h=101), S("exit")],
          2: [S("root", tr=2, smp=True), S("setlp", h=201), S("lenter"), S("lexit"), S("dropg"), S("drop", h=201)]})
INSTANCES.update({
    # every placement of one set_reporter() and of the collector's steps among the calls of two threads that live across it
    "lit_reinstall": (LIT_REINSTALL, "edge", {}),
    "reinst5": (seq(["root", "child", "drop", "setlp", "dropg", "lenter", "lexit", "reinstall"], MaxOps=5, MaxSpans=3, MaxRoots=2, MaxTraces=2,
                    MaxScopes=1, MaxLocal=1, MaxCycles=2, MaxFlush=1, distinct_ops=True), "terminal", {}),
})

# recovery after overload in cancelable mode (wave 10: a span set that overtakes the parked start of its own trace is
# discarded as late, the root is delivered alone - C03's business as much as C09's)
INSTANCES["over_recover_c"] = (dict(INSTANCES["over_recover"][0], cancelable=True), "terminal", {})

# what a burst of concurrent cancelled traces leaves behind (wave 10: finished traces' collector entries pooled and
# cleared only on reuse): 26 small cancelable traces one after the other (warm-up, the heap reference is taken after
# the 26th), then twelve traces (two threads) with fifteen buffered children each, open at the same time, cancelled after a cycle;
# then small traces again - the bytes allocated at quiescence must be back where they were
def _small_c(k):
    return [dict(ev="spawn", t=1), dict(_c("root", h=101, tr=1, smp=True), t=1), dict(_c("child", h=102, ps=[101], multi=False), t=1),
            dict(_c("drop", h=102), t=1), dict(ev="cycle"), dict(_c("drop", h=101), t=1), dict(ev="push", t=1), dict(_c("exit"), t=1), dict(ev="cycle"), dict(ev="cycle")]
def _burst_cancel():
    st = [dict(ev="spawn", t=1), dict(ev="spawn", t=2)]
    roots = [(t, 100 * t + 1 + 16 * i) for t in (1, 2) for i in range(6)]
    for i, (t, r) in enumerate(roots):
        st.append(dict(_c("root", h=r, tr=1 + i, smp=True), t=t))
    for t, r in roots:
        for j in range(1, 16):
            st += [dict(_c("child", h=r + j, ps=[r], multi=False), t=t), dict(_c("drop", h=r + j), t=t)]
        st.append(dict(ev="cycle"))
    for t, r in roots:
        st += [dict(_c("cancel", h=r), t=t), dict(_c("drop", h=r), t=t), dict(ev="push", t=t)]
    st += [dict(ev="cycle"), dict(_c("exit"), t=1), dict(_c("exit"), t=2), dict(ev="cycle"), dict(ev="cycle")]
    return st
EXTRA["churn_pool_c"] = dict(cfg=dict(K=64, cancelable=True, churn=True), repeat=1,
                             behaviours=[dict(steps=_small_c(0), prefix=True)] * 26 + [dict(steps=_burst_cancel(), prefix=True)] + [dict(steps=_small_c(0), prefix=True)] * 8)
# a long-lived trace of one thread next to many short traces of another (wave 10: collect ids handed out in per-thread
# blocks of 64 with an off-by-one at the block boundary - the 65th trace of a thread shares its collect id with the first
# trace of the thread that reserved the next block).  Internal block / batch sizes need runs that are long in one dimension.
def _manyroots(n):
    st = [dict(ev="spawn", t=1), dict(ev="spawn", t=2),
          dict(_c("root", h=101, tr=1, smp=True), t=1), dict(_c("drop", h=101), t=1), dict(ev="push", t=1),
          dict(_c("root", h=201, tr=2, smp=True), t=2), dict(_c("child", h=202, ps=[201], multi=False), t=2), dict(_c("drop", h=202), t=2), dict(ev="cycle")]
    for k in range(2, n + 1):
        st += [dict(_c("root", h=100 + k, tr=2 + k, smp=True), t=1), dict(_c("drop", h=100 + k), t=1), dict(ev="push", t=1)]
        if k % 4 == 0:
            st.append(dict(ev="cycle"))
    st += [dict(_c("child", h=203, ps=[201], multi=False), t=2), dict(_c("drop", h=203), t=2), dict(_c("drop", h=201), t=2), dict(ev="push", t=2),
           dict(_c("exit"), t=1), dict(_c("exit"), t=2), dict(ev="cycle"), dict(ev="cycle")]
    return st
EXTRA["manyroots_c"] = dict(cfg=dict(K=16, cancelable=True), behaviours=[dict(steps=_manyroots(70), prefix=True)])
EXTRA["manyroots"] = dict(cfg=dict(K=16), behaviours=[dict(steps=_manyroots(70), prefix=True)])

# a captured set with attachments at its top level pushed by one thread to a span that another thread finishes: the
# parent's record can come BEFORE the set in the batch (the finishing thread's queue is swept first) - wave 10: attachments
# mounted collection by collection lose them then.  Single-threaded, the push always precedes the parent's record.
INSTANCES.update({
    "lc_cross_p": (dict(threads=[1, 2], born=[1, 2], K=8, menu=["pushc", "drop", "exit"], MaxOps=3, MaxSpans=3, MaxRoots=1, MaxTraces=1, MaxLocal=2, MaxAtt=2, MaxLs=1,
                        MaxScopes=1, MaxCycles=2, cross=True, prefix=True,
                        prog={1: [S("root", tr=1, smp=True), S("child", ps=[101])],
                              2: [S("lcstart"), S("levent"), S("lenter"), S("lexit"), S("lprops"), S("lccollect")]}), "edge", {}),
})

# attachments of one class made on both sides of collector cycles (wave 10: what a later cycle brings mounted before what
# an earlier one parked).  Where a cycle falls does not change the terminal state, so the menu instances print one
# placement per count of cycles; here every placement is its own transition (edge emission).
LIT_ATTACH_CYCLES = dict(threads=[1], born=[1], K=16, MaxCycles=3, MaxAtt=4,
    prog={1: [S("root", tr=1, smp=True), S("child", ps=[101]), S("sprops", h=102), S("sevent", h=102), S("sprops", h=102), S("sevent", h=102),
              S("drop", h=102), S("drop", h=101), S("exit")]})
INSTANCES.update({
    "lit_attach_cycles": (LIT_ATTACH_CYCLES, "edge", {}),
    "lit_attach_cycles_c": (with_(LIT_ATTACH_CYCLES, cancelable=True), "edge", {}),
})
