#!/usr/bin/env python3
"""Regenerates /verif/MANIFEST.json from the plan (run after changing lib/plan.py)."""
import json, os, subprocess, sys
sys.path.insert(0, os.path.dirname(os.path.abspath(__file__)))
from plan import PLAN, SIDE

VERIF = os.path.dirname(os.path.dirname(os.path.abspath(__file__)))
props = [json.loads(l) for l in open(os.path.join(VERIF, "properties.jsonl"))]

MC_NOTE = ("TLC explores every interleaving / program of the bounded instances listed in the evidence (DESIGN.md 3.5) exhaustively on the "
           "implementation-shaped model Fastrace.tla with the property's clauses of Abs.tla as invariant; the binding to the code is by replaying "
           "TLC's behaviours on the real library (steered through cfg(fastrace_verif) hooks) and validating the recorded interface traces with "
           "the same Abs.tla (TraceAbs.tla).  Assumes sequentially consistent steps (no weak-memory exploration) and the small-scope hypothesis "
           "beyond the bounds.")

TEXT = {
    "C01": "Exactly-once delivery in the default configuration, by the next collector cycle / flush: TLC enumerates all interleavings of ring pushes, thread exits and collector steps for litmus and menu programs; every explored transition of the litmus families and every terminal behaviour of the menus is replayed on the real code and validated.",
    "C02": "Trace id, parent ids (explicit, local-parent span, innermost local span, remote), one copy per parent, non-zero distinct ids: all well-scoped programs up to the budget, replayed and validated against the abstract tree.",
    "C03": "Cancelable mode: nothing before the root's finish, everything finished before it in the same batch, nothing afterwards; all interleavings of two-thread programs. The cross-thread inconsistent-cut defect is a listed known finding with a narrow signature.",
    "C04": "cancel() silences the whole trace (also with a full queue, K=2) and is inert in the default configuration; all interleavings incl. overflow-list replay.",
    "C05": "Unsampled traces are never delivered, contexts carry sampled=false, mixed parent sets deliver only sampled copies: all programs of the menu with sampled in {T,F}.",
    "C06": "Attachments (creation, handle, local route) arrive exactly once on the right span copy with order preserved per route/thread, wherever cycles fall, in both configurations, within the stated provisos.",
    "C07": "No public call panics or hangs: hostile menu (no-op / empty parent sets, no reporter, re-entrant closures, K=1 ring, 2-entry queue, 1-entry scope stack); every replayed call runs under catch_unwind and a watchdog.",
    "C08": "At quiescence the collector holds entries only for open roots and no receiver of an exited thread: statistics hook compared with the abstract state after every replayed behaviour.",
    "C09": "Overload (K=2 rings, 2-entry local queues): only refused submissions are missing, finish/cancel/start signals keep their order, retained state is clean after recovery.",
    "C10": "current_local_parent() after every step equals the abstract scope stack; closing a scope restores the context; local collectors shadow; inert without a local parent.",
    "C11": "from_span / current_local_parent return the right trace, span and flag; a root made from such a context (directly or through the traceparent codec) is delivered under that span.",
    "C18": "Every delivered record's begin time lies in the wall-clock bracket of the call that created the span and its duration between the monotonic brackets of the creating and finishing calls (harness-side clock readings around each call, stated tolerances); local spans nest inside their parents, siblings do not overlap, events lie inside their span; elapsed() within its bracket.  Decided by trace validation only (the model has no clock): level exploration.",
    "C12": "W3C.tla is an executable specification of the traceparent decoder over sequences of characters; TLC enumerates the product of field classes (13 119 decode classes, 72 id classes), the harness concretises each with seeded random digits and adds free-form text; the real functions run under catch_unwind and every result is validated by TLC against the module (panic, accepted-malformed, rejected-valid, wrong value; 55-character form, round trip, Display/FromStr/serde). Level exploration: the input space is sampled per class, not decided.",
    "C19": "Reporters.tla states the three mappings structurally (ids as hex strings, numbers as digit sequences); TLC enumerates record classes (id byte patterns incl. top bit set, string classes, duration classes, property / event counts, duplicate keys) and batch sizes 0..200; the real reporters run against a loopback UDP socket, a loopback HTTP listener and a capturing SpanExporter; the bytes are decoded by independent Thrift-compact and MessagePack decoders (a decoding error is the well-formedness verdict) and validated by TLC. Level exploration.",
    "C20": "Jaeger.tla is a PlusCal transcription of try_report over an abstract size function; TLC checks termination (and a decreasing variant), datagram size and exactly-once-in-order for every size vector up to the bound over {tiny, third, half, just below, just at, oversize}; every vector (and random batches of up to 2000 spans) is then run through the real reporter with records padded to the exact singleton sizes 7999 / 8000, and the received datagrams are validated by TLC against the property's conjuncts.",
    "C15": "Macro.tla gives a small statement language for bodies (effect, by-ref use, by-value move, ok?, err?, early return, panic, await, nested annotated call) its meaning, and says which spans an annotated call records; TLC enumerates function kind (sync, async, enter_on_poll, generic, lifetimes, method, async method, async-trait) x naming x properties x bodies; every case is generated as a plain and an annotated Rust function, compiled against /repo's macro crate and run with and without a local parent; effects, outcome (value / error / panic payload) and records are validated by TLC against the module. Level exploration: a bounded grammar, not Rust's type system.",
    "C13": "in_span(span): the span is the local parent during every poll and the previous context is back afterwards (context queries inside and after polls); the span finishes exactly at completion or drop; what the final poll recorded is part of the trace (cancelable mode: same batch). enter_on_poll: one local span per poll. All poll sequences up to the bound, with migration between two threads, cycles at every push incl. those inside the final poll.",
    "C14": "The same for fastrace-futures' Stream and Sink adapters (poll_next / poll_ready / start_send / poll_flush / poll_close), driven through the real adapters around a scripted inner stream / sink.",
    "C16": "Built without the `enable` feature (second harness build) every call is inert: no reporter call, no thread from set_reporter, no context, no closure invoked; with the feature on the same for spans that are not recording (no reporter installed, no-op parents, no local parent).",
    "C17": "A collected local-span set pushed to several parents yields identical subtrees under each parent.",
}

EXPLORATION = {"C18", "C12", "C19", "C15"}
SIDE_SPEC = {"C15": "Macro.tla", "C12": "W3C.tla", "C19": "Reporters.tla", "C20": "Jaeger.tla (PlusCal, model checked)"}
REF = {p: "DESIGN.md section 5, " + p for p in TEXT}


CHANNEL = {"C01", "C04", "C07", "C08", "C09"}
CHANNEL_NOTE = (" In addition spec/Channel.tla (the command channel at the grain of single ring operations) is model checked on every run: "
                "safety for all interleavings, liveness under fairness (what enters a ring is processed without a further call, flush() returns also "
                "when it overlaps a cycle, a dead thread's receiver is dropped) and the refinement of Fastrace.tla's drain / check grain; the hook events "
                "of every steered run are validated against it by spec/TraceChan.tla (coverage.channel_model / channel_conformance in the evidence).")


def main():
    checks = []
    for p in props:
        pid = p["id"]
        if pid in PLAN or pid in SIDE:
            checks.append(dict(
                property_id=pid,
                quick_cmd="./check %s --tier quick" % pid,
                thorough_cmd="./check %s --tier thorough" % pid,
                evidence_file="evidence/%s.json" % pid,
                replay_cmd_template="./check %s --replay {path}" % pid,
                level_claimed=dict(category="exploration" if pid in EXPLORATION else "model_checking", text=TEXT.get(pid, ""), design_ref=REF.get(pid, "DESIGN.md section 5")),
                level_note=MC_NOTE,
                technique=("TLA+ side specification (%s) as case enumerator and oracle: TLC-generated cases run on the real code, observations validated by TLC (TraceSide.tla)" % SIDE_SPEC[pid]) if pid in SIDE_SPEC else "TLA+ model checking (TLC) of Fastrace.tla + steered replay on the real code + TLC trace validation (TraceAbs.tla)",
                engine=None,
            ))
    for c in checks:
        c["engine"] = "fastrace-side" if c["property_id"] in SIDE_SPEC else "fastrace-tla"
        if c["property_id"] in CHANNEL:
            c["level_note"] += CHANNEL_NOTE
            c["technique"] += " + TLC on Channel.tla (safety, liveness under fairness, refinement) + TLC trace validation of hook events (TraceChan.tla)"
        if c["property_id"] not in SIDE_SPEC:
            c["level_note"] += (" The collector's batch processing is spec/Collector.tla (pure operators applied by Fastrace.tla's collector step); every batch the real "
                                "collector processed in the validated runs is folded through the same operators by spec/TraceColl.tla and what the collector kept and "
                                "reported must be what they yield (coverage.collector_conformance in the evidence).")
            c["technique"] += " + TLC trace validation of the collector's processed batches against Collector.tla (TraceColl.tla)"
        if c["property_id"] in SIDE_SPEC:
            c["level_note"] = ("The TLA+ module is the oracle and the exhaustive class enumerator; the Rust code is only observed, not proved. Trusted: the side harness's "
                               "concretisation of classes and its independent decoders (sideharness/src/wire.rs).")
    claimed = {c["property_id"] for c in checks}
    na = [dict(property_id=p["id"], reason="check not built yet in this round (see DESIGN.md section 10); not decided by another technique")
          for p in props if p["id"] not in claimed]
    hooks = subprocess.run(["git", "-C", "/repo", "log", "--format=%h %s"], stdout=subprocess.PIPE, text=True).stdout.splitlines()
    hook_commits = [l.split()[0] for l in hooks if "verif hooks" in l.lower() or "verification hooks" in l.lower()]
    m = dict(
        version=1,
        setup_cmd="./setup.sh",
        hooks=dict(guard="fastrace_verif",
                   enable="rustc cfg: RUSTFLAGS='--cfg fastrace_verif' (set in harness/.cargo/config.toml); the harness crate path-depends on /repo/fastrace with feature `enable`",
                   baseline_off_cmd="cd /repo && cargo test --workspace --no-fail-fast --offline",
                   source_commits=hook_commits, add_only=True),
        engines=[dict(name="fastrace-side", path="spec/side/*.tla, sideharness/, lib/side.py", serves_properties=sorted(SIDE_SPEC),
                      kind_free_text="TLA+ side specifications: TLC enumerates cases / model checks the transcribed algorithm, the real code runs the cases, TLC validates the observations"),
                 dict(name="fastrace-tla", path="spec/Fastrace.tla, spec/Abs.tla, spec/TraceAbs.tla, spec/Collector.tla, spec/TraceColl.tla, spec/Channel.tla, spec/TraceChan.tla, harness/, lib/",
                      serves_properties=sorted(claimed - set(SIDE_SPEC)),
                      kind_free_text="explicit TLA+ specification checked with TLC; conformance by steered replay of TLC behaviours and TLC trace validation")],
        checks=checks,
        not_applicable=na,
        notes="Known findings and fixed defects: known_findings.jsonl. `./check Cxx` exits 0 / 1 (+VIOLATION line) / 2 (tool error).",
    )
    json.dump(m, open(os.path.join(VERIF, "MANIFEST.json"), "w"), indent=1)
    print("claimed:", sorted(claimed), "n/a:", [x["property_id"] for x in na])


if __name__ == "__main__":
    main()
