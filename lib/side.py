"""Side specifications (DESIGN.md 5, C12 / C19 / C20): TLC enumerates the cases (and, for C20, model
checks the transcribed algorithm), the side harness runs the real code on concretised cases, TLC
validates the observations against the same modules (TraceSide.tla)."""
import json, os, random, re, shutil, subprocess, sys, time

import engine as E

SIDE_SPEC = os.path.join(E.SPEC, "side")
SIDE_H = os.path.join(E.VERIF, "sideharness")
SBIN = os.path.join(SIDE_H, "target", "debug", "fvside")
CASE_RE = re.compile(r'^<<"(CASE|ROUND)", "(.*)">>$')


def build_side():
    lock = os.path.join(SIDE_H, "Cargo.lock")
    if not os.path.exists(lock):
        shutil.copy("/repo/Cargo.lock", lock)
    r = subprocess.run(["cargo", "build", "--offline"], cwd=SIDE_H, stdout=subprocess.PIPE, stderr=subprocess.STDOUT, text=True,
                       env=dict(os.environ, CARGO_NET_OFFLINE="true"))
    if r.returncode != 0:
        sys.stderr.write(r.stdout[-4000:])
        raise E.ToolError("side harness build failed")


def tlc_side(module, cfgtext, tag, workers=4, timeout=900, extra=()):
    d = os.path.join(E.OUT, "side", tag)
    shutil.rmtree(d, ignore_errors=True)
    os.makedirs(d)
    for f in os.listdir(SIDE_SPEC):
        if f.endswith(".tla"):
            shutil.copy(os.path.join(SIDE_SPEC, f), d)
    open(os.path.join(d, module + ".cfg"), "w").write(cfgtext)
    outp = os.path.join(d, "tlc.out")
    t0 = time.time()
    with open(outp, "w") as fo:
        r = subprocess.run(["timeout", str(timeout), "tlc", "-workers", str(workers), "-metadir", os.path.join(d, "st"), "-cleanup", "-noGenerateSpecTE",
                            "-config", module + ".cfg"] + list(extra) + [module + ".tla"], cwd=d, stdout=fo, stderr=subprocess.STDOUT,
                           env=dict(os.environ, JAVA_TOOL_OPTIONS="-Xss512m"))
    res = dict(wall=time.time() - t0, states=0, distinct=0, cases=[], rounds=[], ok=False, violated=False, rc=r.returncode)
    for line in open(outp):
        m = CASE_RE.match(line.rstrip("\n"))
        if m:
            (res["cases"] if m.group(1) == "CASE" else res["rounds"]).append(json.loads(E.unescape(m.group(2))))
            continue
        mm = re.search(r"(\d+) states generated, (\d+) distinct states found", line)
        if mm:
            res["states"], res["distinct"] = int(mm.group(1)), int(mm.group(2))
        if "No error has been found" in line:
            res["ok"] = True
        if "is violated" in line or "Temporal properties were violated" in line:
            res["violated"] = True
    if not res["ok"] and not res["violated"]:
        raise E.ToolError("TLC failed on %s: %s" % (module, open(outp).read()[-2000:]))
    return res


def denull(v):
    if v is None:
        return ""
    if isinstance(v, list):
        return [denull(x) for x in v]
    if isinstance(v, dict):
        return {k: denull(x) for k, x in v.items()}
    return v


def validate_side(obs_path, tag, parts=8):
    """TraceSide.tla over the observations; returns (violations, consumed)."""
    lines = [json.dumps(denull(json.loads(l))) for l in open(obs_path) if l.strip()]
    d = os.path.join(E.OUT, "side", tag + "-val")
    shutil.rmtree(d, ignore_errors=True)
    os.makedirs(d)
    for f in os.listdir(SIDE_SPEC):
        if f.endswith(".tla") or f == "TraceSide.cfg":
            shutil.copy(os.path.join(SIDE_SPEC, f), d)
    parts = max(1, min(parts, len(lines) // 50 + 1))
    per = (len(lines) + parts - 1) // parts
    procs = []
    for k in range(parts):
        chunk = lines[k * per:(k + 1) * per]
        if not chunk:
            continue
        p = os.path.join(d, "obs-%d.ndjson" % k)
        open(p, "w").write("\n".join(chunk) + "\n")
        fo = open(os.path.join(d, "val-%d.out" % k), "w")
        procs.append((subprocess.Popen(["timeout", "1500", "tlc", "-workers", "1", "-metadir", os.path.join(d, "st%d" % k), "-cleanup", "-noGenerateSpecTE",
                                        "-config", "TraceSide.cfg", "TraceSide.tla"], cwd=d, stdout=fo, stderr=subprocess.STDOUT,
                                       env=dict(os.environ, TRACE=p, JAVA_TOOL_OPTIONS="-Xss1g")), fo, len(chunk), k, k * per))
    viols, consumed = [], 0
    for pr, fo, n, k, base in procs:
        pr.wait()
        fo.close()
        txt = open(os.path.join(d, "val-%d.out" % k)).read()
        m = re.search(r'<<"CONSUMED", (\d+)>>', txt)
        if not m or int(m.group(1)) != n:
            raise E.ToolError("side validation did not consume its input (%s of %d):\n%s" % (m.group(1) if m else "?", n, txt[-3000:]))
        consumed += n
        for line in txt.splitlines():
            mm = re.match(r'^<<"VIOL", "(.*)">>$', line)
            if mm:
                v = json.loads(E.unescape(mm.group(1)))
                v["line"] = base + v["line"] - 1
                viols.append(v)
    return viols, consumed, lines


def run_harness(mode, cases, tag, seed):
    d = os.path.join(E.OUT, "side", tag)
    os.makedirs(d, exist_ok=True)
    inp = os.path.join(d, "cases.jsonl")
    outp = os.path.join(d, "obs.ndjson")
    with open(inp, "w") as f:
        for i, c in enumerate(cases):
            c = dict(c)
            c["id"] = i
            f.write(json.dumps(c) + "\n")
    try:
        r = subprocess.run([SBIN, mode, "--in", inp, "--out", outp, "--seed", str(seed)], stdout=subprocess.PIPE, stderr=subprocess.PIPE, text=True, timeout=3000)
    except subprocess.TimeoutExpired:
        raise E.ToolError("side harness timed out")
    if r.returncode != 0:
        raise E.ToolError("side harness failed: " + r.stderr[-2000:])
    return outp


# ----------------------------------------------------------------------------- C12 concretisation
HEX = "0123456789abcdef"


def num_text(cls, w, rnd):
    dig = lambda n, first_nonzero=False: "".join((rnd.choice(HEX[1:]) if (i == 0 and first_nonzero) else rnd.choice(HEX)) for i in range(n))
    if cls == "exact":
        return dig(w)
    if cls == "upper":
        s = dig(w).upper()
        return s if any(c.isalpha() for c in s) else "A" + s[1:]
    if cls == "allf":
        return "f" * w
    if cls == "zero":
        return "0" * w
    if cls == "short":
        return dig(rnd.randint(1, w - 1))
    if cls == "padded":
        return "0" * rnd.randint(1, 4) + dig(w)
    if cls == "over":
        return dig(w + rnd.randint(1, 3), first_nonzero=True)
    if cls == "empty":
        return ""
    if cls == "nonhex":
        s = list(dig(w))
        s[rnd.randrange(w)] = rnd.choice("gzGZ_xX.#")
        return "".join(s)
    if cls == "nonascii":
        s = list(dig(w))
        s[rnd.randrange(w)] = rnd.choice(["０", "é", "١", "\U0001d7ce"])
        return "".join(s)
    if cls == "plus":
        return "+" + dig(w - 1)
    if cls == "space":
        return rnd.choice([" " + dig(w - 1), dig(w - 1) + " ", dig(w // 2) + " " + dig(w - w // 2 - 1)])
    raise ValueError(cls)


def ver_text(cls):
    return {"00": "00", "01": "01", "0": "0", "000": "000", "empty": "", "ff": "ff", "wide": "００"}[cls]


def flag_text(cls, rnd):
    return {"00": "00", "01": "01", "02": "02", "03": "03", "ff": "ff", "0F": "0F", "short": rnd.choice("0123456789abcdef"), "padded": "00" + rnd.choice("0123"),
            "over": rnd.choice(["100", "1ff", "fff"]), "empty": "", "nonhex": rnd.choice(["0g", "zz", "1_"]), "nonascii": "0é", "plus": "+1"}[cls]


def decode_case(c, rnd):
    fs = [ver_text(c["v"]), num_text(c["t"], 32, rnd), num_text(c["s"], 16, rnd), flag_text(c["f"], rnd), "00", "x"]
    text = "-".join(fs[:c["n"]])
    fields = [list(f) for f in text.split("-")]
    return dict(op="decode", text=text, fields=fields, cls=c)


def id_value(cls, bits, rnd):
    if cls == "zero":
        return 0
    if cls == "one":
        return 1
    if cls == "allf":
        return (1 << bits) - 1
    if cls == "top":
        return 1 << (bits - 1)
    if cls == "low":
        return rnd.randrange(1, 1 << 12)
    return rnd.getrandbits(bits)


# ----------------------------------------------------------------------------- per property
def finish(prop, tier, seed, t0, level, tlc_states, tlc_trans, evaluations, distinct, rule, samples, viols, lines, extra, replay_info):
    import runner
    _, known = E.load_known()
    sigs = {k["signature"]: k for k in known if k.get("property") == prop}
    listed = [v for v in viols if v["p"] == prop and v["w"] in sigs]
    for sig in sorted({v["w"] for v in listed}):
        print("KNOWN-FINDING: property=%s %s %s" % (prop, sigs[sig]["id"], sigs[sig].get("what", "")))
    new = [v for v in viols if v["p"] == prop and v["w"] not in sigs]
    harness_issues = [v for v in viols if v["p"] == "HARNESS"]
    if harness_issues:
        raise E.ToolError("harness concretisation disagrees with the specification: %s" % harness_issues[:3])
    paths = []
    for k, v in enumerate(new[:20]):
        vdir = os.path.join(E.OUT, prop)
        os.makedirs(vdir, exist_ok=True)
        p = os.path.join(vdir, "violation-%d.json" % k)
        json.dump(dict(property=prop, violation=v, observation=json.loads(lines[v["line"]]), replay=replay_info), open(p, "w"), indent=1)
        paths.append(p)
        print("VIOLATION property=%s replay=%s  %s (case %s)" % (prop, p, v["w"], v["id"]))
    cov = dict(evaluations=evaluations, distinct_nontrivial=distinct, rule=rule, samples=samples, states=tlc_states, transitions=tlc_trans,
               traces_validated_against_impl=evaluations)
    cov.update(extra)
    runner.write_evidence(prop, tier, seed, level, cov, time.time() - t0, len(new),
                          ["the side harness's concretisation of classes and its independent decoders are trusted (DESIGN.md 9)"])
    return 1 if new else 0


def run_c20(prop, tier, seed, replay):
    t0 = time.time()
    build_side()
    rnd = random.Random(seed)
    maxlen = 5 if tier == "quick" else 7
    cfg = "CONSTANTS\n  Limit = 80\n  Base = 6\n  Classes = {2, 24, 36, 72, 73, 90, 200}\n  MaxLen = %d\nSPECIFICATION FairSpec\nINVARIANTS Small Sound Complete Emit\nPROPERTIES Termination Decreases\nCHECK_DEADLOCK FALSE\n" % maxlen
    if replay:
        rec = json.load(open(replay))
        cases = [dict(sz=rec["observation"]["classes"])]
        mc = dict(distinct=0, states=0)
    else:
        mc = tlc_side("Jaeger", cfg, "C20-mc", workers=8 if tier == "quick" else 14, timeout=3000)
        E.log("Jaeger.tla: %d distinct states, violated=%s, %d vectors, %.1fs" % (mc["distinct"], mc["violated"], len(mc["cases"]), mc["wall"]))
        if mc["violated"]:
            # the transcription itself violates the property: say so, the verdict is still the real code's
            E.log("MODEL VIOLATES C20")
        cases = [dict(sz=c["sz"]) for c in mc["cases"]]
        cap = 1500 if tier == "quick" else 30000
        if len(cases) > cap:
            cases = rnd.sample(cases, cap)
        # batches far beyond the model's length, straddling the boundary
        nbig = 12 if tier == "quick" else 120
        for _ in range(nbig):
            n = rnd.choice([20, 64, 199, 500, 2000 if tier != "quick" else 300])
            cases.append(dict(sz=[rnd.choice([2, 2, 2, 24, 36, 72, 73, 90, 200, 500]) for _ in range(n)]))
    obs = run_harness("jaeger", cases, "C20", seed)
    viols, consumed, lines = validate_side(obs, "C20")
    E.log("C20: %d cases on the real reporter, %d violations" % (consumed, len(viols)))
    return finish(prop, tier, seed, t0, "model_checking", mc["distinct"], mc["states"], consumed, len({tuple(c["sz"]) for c in cases}),
                  "every size vector up to length %d over {tiny, third, half, just below, just at, oversize, 2.5 x oversize} (TLC model checks the transcribed loop on all of them and prints them), "
                  "plus random long batches; each is run through the real JaegerReporter against a loopback socket, datagrams decoded by an independent Thrift decoder; distinct = distinct vectors" % maxlen,
                  [json.loads(l) for l in lines[:3]], viols, lines, dict(model_violates=mc.get("violated", False), exhaustive=not replay), dict(kind="jaeger"))


def run_c12(prop, tier, seed, replay):
    t0 = time.time()
    build_side()
    rnd = random.Random(seed)
    mc = tlc_side("MC_W3C", "INIT Init\nNEXT Next\n", "C12-mc")
    reps = 2 if tier == "quick" else 16
    cases = []
    if replay:
        rec = json.load(open(replay))
        o = rec["observation"]
        cases = [dict(op="decode", text="-".join("".join(f) for f in o["fields"]), fields=o["fields"], cls=o["cls"])] if o["ev"] == "decode" else \
                [dict(op="roundtrip", trace=o["trace"], span=o["span"], smp=o["smp"])]
    else:
        for c in mc["cases"]:
            for _ in range(reps if c["n"] == 4 else 1):
                cases.append(decode_case(c, rnd))
        for c in mc["rounds"]:
            for _ in range(reps * 2):
                cases.append(dict(op="roundtrip", trace="%032x" % id_value(c["t"], 128, rnd), span="%016x" % id_value(c["s"], 64, rnd), smp=c["smp"]))
        # arbitrary text: never panics, and the field rule decides
        junk = ["", "-", "---", "00", "00-", "00---", "00-0-0-0", "é", "00-" + "f" * 32 + "-" + "f" * 16 + "-01-", " 00-1-1-01", "00-1-1-01\n",
                "00-0x1f-1-01", "00-1-1-0x1", "00_1_1_01", "00-1-1", "0-1-1-01"]
        for _ in range(200 if tier == "quick" else 5000):
            junk.append("".join(rnd.choice("0123456789abcdefABCDEF-- +gzé０") for _ in range(rnd.randint(0, 70))))
        for j in junk:
            fields = [list(f) for f in j.split("-")]
            cases.append(dict(op="decode", text=j, fields=fields, cls=dict(want="any")))
    obs = run_harness("codec", cases, "C12", seed)
    # free-form text has no class to cross-check: give it the specification's own answer
    fixed = []
    for l in open(obs):
        o = json.loads(l)
        if o["ev"] == "decode" and o["cls"].get("want") == "any":
            o["cls"]["want"] = "skip"
        fixed.append(json.dumps(o))
    open(obs, "w").write("\n".join(fixed) + "\n")
    viols, consumed, lines = validate_side(obs, "C12")
    E.log("C12: %d codec calls on the real code, %d violations" % (consumed, len(viols)))
    return finish(prop, tier, seed, t0, "exploration", 0, 0, consumed, len(mc["cases"]) + len(mc["rounds"]),
                  "TLC enumerates the product of field classes of W3C.tla (%d decode classes, %d id classes for round trips); each class is concretised %d times with seeded random digits, "
                  "plus free-form texts; the real functions run under catch_unwind; distinct = classes" % (len(mc["cases"]), len(mc["rounds"]), reps),
                  [json.loads(l) for l in lines[:2]], viols, lines, dict(classes=len(mc["cases"]), exhaustive=False), dict(kind="codec"))


def run_c19(prop, tier, seed, replay):
    t0 = time.time()
    build_side()
    rnd = random.Random(seed)
    mc = tlc_side("MC_Reporters", "INIT Init\nNEXT Next\n", "C19-mc")
    cases = [dict(recs=c["recs"]) for c in mc["cases"]]
    if replay:
        rec = json.load(open(replay))
        cases = [rec["replay"]["case"]] if "case" in rec.get("replay", {}) else cases[:50]
    elif tier == "quick" and len(cases) > 700:
        big = [c for c in cases if len(c["recs"]) != 1]
        cases = rnd.sample([c for c in cases if len(c["recs"]) == 1], 700 - len(big)) + big
    obs = run_harness("report", cases, "C19", seed)
    viols, consumed, lines = validate_side(obs, "C19")
    E.log("C19: %d reporter calls on the real code, %d violations" % (consumed, len(viols)))
    return finish(prop, tier, seed, t0, "exploration", 0, 0, consumed, len(cases),
                  "TLC enumerates record classes of Reporters.tla (id byte patterns incl. top bit set, string classes, duration classes, property / event counts, duplicate keys) and batch sizes "
                  "0..200; each batch goes through the real Jaeger (loopback UDP), Datadog (loopback HTTP) and OpenTelemetry (capturing exporter) reporters; output decoded by independent decoders; distinct = batches",
                  [dict(kind=json.loads(l)["kind"], n=len(json.loads(l)["in"])) for l in lines[:3]], viols, lines, dict(batches=len(cases), exhaustive=False), dict(kind="report"))


def run_c15(prop, tier, seed, replay):
    import macrogen
    t0 = time.time()
    rnd = random.Random(seed)
    mc = tlc_side("MC_Macro", "CONSTANT MaxBody = %d\nINIT Init\nNEXT Next\n" % (2 if tier == "quick" else 3), "C15-mc", timeout=1200)
    cases = mc["cases"]
    cap = 700 if tier == "quick" else 3000
    if len(cases) > cap:
        # keep every kind x naming x property combination, sample the bodies
        keep, seen = [], set()
        rnd.shuffle(cases)
        for c in cases:
            key = (c["kind"], c["naming"], c["props"])
            if key not in seen:
                seen.add(key)
                keep.append(c)
        rest = [c for c in cases if c not in keep]
        cases = keep + rest[:cap - len(keep)]
    mh = os.path.join(E.VERIF, "macroharness")
    macrogen.generate(cases, os.path.join(mh, "src", "gen.rs"))
    lock = os.path.join(mh, "Cargo.lock")
    if not os.path.exists(lock):
        shutil.copy("/repo/Cargo.lock", lock)
    r = subprocess.run(["cargo", "build", "--offline"], cwd=mh, stdout=subprocess.PIPE, stderr=subprocess.STDOUT, text=True, env=dict(os.environ, CARGO_NET_OFFLINE="true"))
    if r.returncode != 0:
        # a twin pair that no longer compiles is a change in what the macro accepts or generates
        sys.stderr.write(r.stdout[-3000:])
        raise E.ToolError("generated twin functions do not compile against /repo's macro")
    d = os.path.join(E.OUT, "side", "C15")
    os.makedirs(d, exist_ok=True)
    obs = os.path.join(d, "obs.ndjson")
    rr = subprocess.run([os.path.join(mh, "target", "debug", "fvmacro"), obs], stdout=subprocess.PIPE, stderr=subprocess.PIPE, text=True, timeout=600)
    if rr.returncode != 0:
        raise E.ToolError("macro harness failed: " + rr.stderr[-2000:])
    viols, consumed, lines = validate_side(obs, "C15")
    E.log("C15: %d twin pairs compiled and run, %d violations" % (consumed, len(viols)))
    return finish(prop, tier, seed, t0, "exploration", 0, 0, consumed, len(cases),
                  "TLC enumerates function kind x naming x properties x bodies (up to %d statements over effect / by-ref use / by-value move / ok? / err? / early return / panic / await / "
                  "nested annotated call) of Macro.tla with the body's meaning; each is generated as a plain and an annotated Rust function, compiled against /repo's macro crate and run "
                  "with and without a local parent; distinct = generated pairs" % (2 if tier == "quick" else 3),
                  [json.loads(l)["case"] for l in lines[:3]], viols, lines, dict(pairs=len(cases), exhaustive=False), dict(kind="macro"))


SIDE = {"C20": run_c20, "C12": run_c12, "C19": run_c19, "C15": run_c15}
