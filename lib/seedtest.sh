#!/bin/sh
# usage: lib/seedtest.sh <patch> <Cxx> [<Cxx> ...]   applies a seeded change to /repo, runs the checks, undoes it
patch="$(realpath "$1")"; shift
git -C /repo apply "$patch" || exit 2
for p in "$@"; do
  ./check "$p" > /root/scratch/logs/seed-$p.log 2>&1
  echo "$p exit=$? $(grep -c '^VIOLATION' /root/scratch/logs/seed-$p.log) violation lines; first: $(grep -m1 '^VIOLATION' /root/scratch/logs/seed-$p.log | cut -c1-160)"
done
git -C /repo checkout -- .
git -C /repo status --short | head -3
