"""Which instances decide which property, per tier."""
PLAN = {
    "C01": dict(
        quick=["lit_finish_exit", "lit_foreign_finish", "lit_child_other", "lit_local_scope", "par_small"],
        vacuity=[("lit_finish_exit", ["FixRecv"])],
    ),
}
SIDE = {}
