"""Which instances decide which property, per tier.  Entries are instance names of catalogue.py, or
(name, options) with options: cap (behaviours replayed), timeout, simulate.
`vacuity`: (instance, switches to turn off): the model of the pinned tree must violate the property
there - the standing proof that the check is not vacuous."""

PLAN = {
    "C01": dict(
        quick=[("lit_finish_exit", dict(shuffle=8)), ("lit_foreign_finish", dict(cap=1000, shuffle=6)), ("lit_child_other", dict(cap=1000, shuffle=6)), "lit_local_scope",
               ("lit_spawn_sweep", dict(cap=1000, shuffle=6)), ("par4", dict(shuffle=4)), ("over5_d", dict(cap=600)), ("smp_mixed", dict(cap=1500)), ("tree4", dict(cap=1500)), ("over_recover", dict(cap=800)),
               ("stress:tree4", dict(rounds=200, threads=6)), ("stress:over5_d", dict(rounds=150, threads=4, cfg=dict(K=2))), "burst:9000", "burstm:9000", "overlap:1", ("lit_reinstall", dict(cap=1200))],
        thorough=["lit_reinstall", ("reinst5", dict(cap=6000, timeout=2400)), "lit_finish_exit", "lit_foreign_finish", "lit_child_other", "lit_local_scope", "lit_attach_other", "lit_spawn_sweep", "par4", "par5",
                  "over5_d", "tree5", ("sim_par3", dict(cap=6000)), ("stress:tree4", dict(rounds=2000, threads=6)), "burst:9000", "overlap:1"],
        vacuity=[("lit_finish_exit", ["FixRecv"])],
    ),
    "C02": dict(
        quick=[("tree4", dict(cap=2500)), ("scope_deep", dict(cap=2500)), ("lcdrop_open", dict(cap=2000)), "ids:600"],
        thorough=["tree4", "tree5", "scope_deep", "lcdrop_open", "ids:600", ("tree6", dict(cap=20000, timeout=2400)), ("sim_tree", dict(cap=6000))],
        vacuity=[("tree4", [], "skip-second-copy")],
    ),
    "C03": dict(
        quick=[("lit_finish_exit_c", dict(shuffle=8)), ("lit_foreign_finish_c", dict(cap=1000, shuffle=6)), ("lit_child_other_c", dict(cap=1000, shuffle=6)), ("par4_c", dict(shuffle=4)),
               ("att4_c", dict(cap=800)), ("tree4_c", dict(cap=1200)), ("stress:tree4_c", dict(rounds=200, threads=6)), "burstc:9000", "extra:manyroots_c", ("over_recover_c", dict(cap=800))],
        thorough=["extra:manyroots_c", "over_recover_c", "lit_finish_exit_c", "lit_foreign_finish_c", "lit_child_other_c", "par4_c", "par5_c", "att4_c", "tree4_c", ("sim_par3_c", dict(cap=6000)), ("stress:tree4_c", dict(rounds=2000, threads=6)), "burstc:9000"],
        vacuity=[("lit_finish_exit_c", ["FixRecv"])],
    ),
    "C04": dict(
        quick=[("lit_overflow_cancel", dict(cap=1000, shuffle=6)), "cancel4_c", "cancel4_d", ("over5_c", dict(cap=1000, shuffle=3)), ("multi_cancel_c", dict(cap=1200))],
        thorough=["lit_overflow_cancel", "cancel4_c", "cancel5_c", "cancel4_d", "over5_c", "over6_c", "multi_cancel_c"],
        vacuity=[("lit_overflow_cancel", ["FixFifo"]), ("cancel4_d", ["FixCancelDefault"])],
    ),
    "C05": dict(
        quick=[("smp4", dict(cap=3000)), ("smp_mixed", dict(cap=4000)), "poll_under_lp"],
        thorough=["smp4", "smp_mixed", "poll_under_lp", ("smp5", dict(cap=20000, timeout=2400))],
        vacuity=[("smp_mixed", [], "mark-all-sampled")],
    ),
    "C06": dict(
        quick=[("att4", dict(cap=1500)), ("att4_c", dict(cap=800)), ("lit_attach_other", dict(cap=800)), ("twin4", dict(cap=600)), ("latt_deep", dict(cap=2000)), "att_mixed", "att_mixed_r", ("lc_cross_p", dict(cap=1200)), ("lit_attach_cycles", dict(cap=1500)), "dup:1", "withline:1",
               ("stress:att4", dict(rounds=200, threads=6))],
        thorough=["att4", "att5", "att4_c", "lit_attach_other", "twin4", "latt_deep", "att_mixed", "att_mixed_r", "dup:1", ("sim_att", dict(cap=6000))],
        vacuity=[("att4", [], "drain-danglings")],
    ),
    "C07": dict(
        quick=["hostile4", ("notready4", dict(cap=600)), ("over5_d", dict(cap=500)), "extra:teardown", "extra:teardown_c", "extra:teardown_k1",
               ("stress:hostile4", dict(rounds=150, threads=4)), "withline:1", "overlap:1"],
        thorough=["hostile4", "hostile5", "notready4", "over5_d", "over5_c", "extra:teardown", "extra:teardown_c", "extra:teardown_k1", "withline:1", "overlap:1"],
        vacuity=[("hostile4", ["FixEmptyToken"]), ("hostile4", ["FixReentrant"]), ("hostile4", ["FixStackFull"]), ("over5_d", [], "force-blocks")],
    ),
    "C08": dict(
        quick=["lit_finish_exit", "lit_foreign_finish", ("lit_spawn_sweep", dict(cap=800)), "par4", ("over5_d", dict(cap=800)), ("cancel4_c", dict(cap=400)),
               "extra:churn_late", "extra:churn_mixed", "extra:churn_pool_c", "burstm:9000", ("stress:tree4", dict(rounds=200, threads=6))],
        thorough=["lit_finish_exit", "lit_foreign_finish", "lit_spawn_sweep", "par4", "par5", "over5_d", "cancel4_c", ("sim_par3", dict(cap=6000)),
                  "extra:churn_late", "extra:churn_mixed", "extra:churn_pool_c"],
        vacuity=[("lit_finish_exit", ["FixRecv"]), ("over5_d", ["FixFifo"])],
    ),
    "C09": dict(
        quick=[("over5_d", dict(cap=800, shuffle=3)), ("over5_c", dict(cap=800, shuffle=3)), ("lit_overflow_cancel", dict(cap=500, shuffle=6)),
               ("lit_overflow_finish", dict(cap=500, shuffle=4)), ("lit_overflow_finish_c", dict(cap=500, shuffle=4)),
               ("over_recover", dict(cap=1000)), ("qlimit5", dict(cap=4000)), ("qlimit_with", dict(cap=2500)), ("scope_q1", dict(cap=1500)), ("slimit5", dict(cap=3000)), "burstr:7000"],
        thorough=["burstr:7000", "over5_d", "over5_c", "over6_c", "lit_overflow_finish", "lit_overflow_finish_c", "lit_overflow_cancel", "over_recover", "qlimit5", "qlimit_with", "slimit5"],
        vacuity=[("over5_d", ["FixForceStart"]), ("over5_d", ["FixFifo"])],
    ),
    "C10": dict(
        quick=[("scope5", dict(cap=2000)), ("scope_q1", dict(cap=3000)), ("scope_qfull", dict(cap=800)), ("scope_smp", dict(cap=2500)), ("scope_deep", dict(cap=2500)), ("lcdrop_open", dict(cap=2500)), ("latt_deep", dict(cap=1500))],
        thorough=["scope5", ("scope6", dict(cap=20000)), "latt_deep", "scope_q1", "scope_qfull", "scope_smp", "lcdrop_open", ("scope_smp6", dict(cap=20000, timeout=1200))],
        vacuity=[("scope5", [], "no-restore")],
    ),
    "C11": dict(
        quick=[("ctx4", dict(cap=2500)), ("smp_mixed", dict(cap=1500))],
        thorough=["ctx4", "smp_mixed", ("ctx5", dict(cap=20000, timeout=2400))],
        vacuity=[("ctx4", [], "ctx-last")],
    ),
    "C17": dict(
        quick=[("lc5", dict(cap=1500)), ("lc_open", dict(cap=1000)), ("scope_open", dict(cap=3000)), ("torec5", dict(cap=2000)), ("lc_multi_q", dict(cap=1500)), ("lc_multi_p", dict(cap=2000)), ("lc_late_p", dict(cap=1500)), ("lc_cross_p", dict(cap=1500))],
        thorough=["lc5", "lc_open", "scope_open", "torec5", "lc_multi_q", "lc_multi_p", "lc_late_p", "lc_cross_p", ("lc_multi", dict(cap=20000, timeout=1200)), ("lc6", dict(cap=20000, timeout=2400))],
        vacuity=[("lc_multi_q", [], "push-once")],
    ),
}
PLAN["C18"] = dict(
    level="exploration",
    quick=[("time_tree4", dict(cap=600)), ("time_lc5", dict(cap=400)), ("time_att4", dict(cap=400)), ("time_smp4", dict(cap=800)), ("lc_open", dict(cap=500)), ("scope_open", dict(cap=3000))],
    thorough=[("time_tree4", dict(cap=2700)), ("time_lc5", dict(cap=4000)), ("time_att4", dict(cap=2200)), "time_smp4", "lc_open", "scope_open"],
)
PLAN["C13"] = dict(
    quick=["poll_fut_c", "poll_fut_d", "poll_eop", "poll_fut2_c", "poll_under_lp", ("poll_hold_c", dict(shuffle=8, shuffle_programs=400)), "poll_hold_d"],
    thorough=["poll_fut_c", "poll_fut_d", "poll_eop", "poll_fut2_c", "poll_fut6_c", "poll_under_lp", ("poll_hold_c", dict(shuffle=40, shuffle_programs=400)), "poll_hold_d"],
    vacuity=[("poll_fut_c", ["FixInSpan"]), ("poll_hold_c", [], "span-before-inner")],
)
PLAN["C14"] = dict(
    quick=["poll_str_c", "poll_snk_c", "poll_ss_d", "poll_under_lp", ("poll_hold_c", dict(shuffle=8, shuffle_programs=400)), "poll_hold_d"],
    thorough=["poll_str_c", "poll_snk_c", "poll_ss_d", "poll_ss6_c", "poll_under_lp", ("poll_hold_c", dict(shuffle=40, shuffle_programs=400)), "poll_hold_d"],
    vacuity=[("poll_str_c", ["FixInSpan"])],
)
PLAN["C16"] = dict(
    quick=[("notready4", dict(cap=1200)), ("disabled4", dict(cap=1200)), ("hostile4", dict(cap=800)), "lazy_smp", "lazy_noop"],
    thorough=["notready4", "disabled4", "hostile4", "hostile5", "lazy_smp", "lazy_noop"],
    vacuity=[("notready4", [], "root-ignores-ready")],
    needs_off=True,
)
from side import SIDE
