#!/usr/bin/env python3
"""Developer helper: run one instance through the whole pipeline and show every violation."""
import sys, os, json, time
sys.path.insert(0, os.path.dirname(os.path.abspath(__file__)))
import engine as E
from catalogue import INSTANCES
name = sys.argv[1]
props = sys.argv[2].split(",") if len(sys.argv) > 2 else ["C01","C02","C03","C04","C05","C06","C07","C08","C09","C10","C11","C16","C17","C18"]
fixes = E.current_fixes() if "--pinned" not in sys.argv else []
nocheck = "--nomc" in sys.argv
inst, emit, opts = INSTANCES[name]
E.build_harness()
E.build_harness(off=True)
t0=time.time()
r = E.run_tlc(name, inst, fixes, props, emit, workers=12, timeout=int(os.environ.get("TLC_TIMEOUT","600")), simulate=opts.get("simulate"), seed=1)
print("TLC: %d distinct, %d generated, depth %d, %d behaviours, %.1fs, violated=%s timed_out=%s" % (r["distinct"], r["states"], r["depth"], len(r["behaviours"]), r["wall"], r["violated"], r["timed_out"]))
if r["violated"]:
    print(" ", r.get("violated_inv"))
    print("  cex:", json.dumps(r["cex"])[:3000])
    txt=open(os.path.join(E.OUT,"tlc","%s.%d"%(name,os.getpid()),"tlc.out")).read()
    i=txt.rfind("viol |->")
    print(txt[i:i+1200])
c = dict(E.DEFAULTS); c.update(inst)
behs = r["behaviours"]
if r["violated"] and r["cex"]:
    behs=[dict(steps=r["cex"],prefix=True)]+behs
nsh=int(os.environ.get("SHUFFLE","0"))
if nsh:
    import random
    rnd=random.Random(8)
    full=[b for b in behs if not b.get("prefix")]
    if not full:
        ncalls=lambda b: sum(1 for x in b["steps"] if x.get("ev")=="call")
        top=max(ncalls(b) for b in behs); full=[b for b in behs if ncalls(b)==top]
    pick=rnd.sample(full,min(len(full),150))
    behs=[dict(steps=b["steps"],shuffle_seed=rnd.getrandbits(48)+1) for b in pick for _ in range(nsh)]
cap=int(os.environ.get("CAP","3000"))
if len(behs)>cap:
    import random
    behs=random.Random(1).sample(behs,cap)
t1=time.time()
trace, st = E.replay(behs, c, "tune-"+name, 1)
t2=time.time()
viols, consumed = E.validate(trace, "tune-"+name, parts=8)
print("replayed %d in %.1fs (misses %d, hung %d); validated %d in %.1fs; %d violations" % (len(behs), t2-t1, st["misses"], st["hung"], consumed, time.time()-t2, len(viols)))
seen={}
for v in viols:
    key=(v["p"],v["w"],v["k"])
    seen.setdefault(key,[]).append(v)
for key,vs in seen.items():
    print(key, len(vs), "e.g. run", vs[0]["run"], vs[0]["d"][:400])
    print("    beh:", json.dumps([ (s.get("op") or s["ev"])+("@%d"%s["t"] if "t" in s else "")+(":%s"%s["h"] if "h" in s else "") for s in behs[vs[0]["run"]]["steps"]]))
print("channel conformance: %d runs, %d events, %d drift" % (E.CHAN["runs"], E.CHAN["events"], len(E.CHAN["drift"])))
for dv in E.CHAN["drift"][:8]:
    print("  DRIFT", dv)
print("collector conformance: %d runs, %d batches, %d records, %d drift" % (E.COLL["runs"], E.COLL["cycles"], E.COLL["records"], len(E.COLL["drift"])))
for dv in E.COLL["drift"][:8]:
    print("  CDRIFT", dv)
