#!/usr/bin/env python3
"""Binding self-test (DESIGN.md 4.5): shows that the trace validator is bound to what the real code
reports.  A small instance is model checked, its behaviours are replayed on the real library, the
recorded trace is accepted; then single recorded fields are corrupted (a record's parent id, a
report line removed, a property value, a duration, a record duplicated, a statistics entry) and
every corrupted trace must be rejected with the expected property.  Exit 0 = all as expected."""
import json, os, sys, copy

sys.path.insert(0, os.path.dirname(os.path.abspath(__file__)))
import engine as E
from catalogue import INSTANCES


def main():
    E.build_harness()
    inst, emit, opts = INSTANCES["att4"]
    r = E.run_tlc("selftest", inst, E.current_fixes(), ["C01", "C02", "C06"], emit, workers=4, timeout=300)
    c = dict(E.DEFAULTS)
    c.update(inst)
    behs = [b for b in r["behaviours"] if any(s.get("op") == "sevent" for s in b["steps"]) and any(s.get("op") == "child" for s in b["steps"])][:40]
    if not behs:
        print("selftest: no behaviours")
        return 2
    trace, st = E.replay(behs, c, "selftest", 1)
    viols, consumed = E.validate(trace, "selftest", parts=2)
    if viols:
        print("selftest: the unchanged trace is rejected:", viols[:3])
        return 1
    lines = [json.loads(l) for l in open(trace)]
    reports = [i for i, e in enumerate(lines) if e["ev"] == "report" and e["recs"]]
    with_events = [i for i in reports if any(r["events"] for r in lines[i]["recs"])]
    child = [i for i in reports if any(r["parent"] != "0" * 16 and r["name"] != "" for r in lines[i]["recs"])]

    def corrupt(name, fn, want):
        ls = copy.deepcopy(lines)
        fn(ls)
        p = os.path.join(E.OUT, "replay", "selftest", "corrupt-%s.ndjson" % name)
        open(p, "w").write("\n".join(json.dumps(e, separators=(",", ":")) for e in ls) + "\n")
        v, _ = E.validate(p, "selftest-" + name, parts=1)
        got = sorted({x["p"] for x in v})
        ok = want in got
        print("selftest %-22s -> %s %s" % (name, got, "ok" if ok else "NOT REJECTED AS %s" % want))
        return ok

    def parent(ls):
        ls[child[0]]["recs"][0]["parent"] = "00000000000000ab"

    def drop_report(ls):
        del ls[reports[0]]

    def dup_record(ls):
        ls[reports[0]]["recs"].append(ls[reports[0]]["recs"][0])

    def event_name(ls):
        for r in ls[with_events[0]]["recs"]:
            if r["events"]:
                r["events"][0]["name"] += "x"
                return

    def trace_id(ls):
        ls[reports[0]]["recs"][0]["trace"] = "f" * 32

    def duration(ls):
        ls[reports[0]]["recs"][0]["d"] += 900000

    def stats(ls):
        for e in ls:
            if e["ev"] == "stats":
                e["active"] = [424242]
                return

    # the channel model (TraceChan.tla) is bound to the hook events in the same way: one push removed, one
    # command kind changed, a drain removed - each must be reported as drift
    def chan(name, fn, want):
        ls = copy.deepcopy(lines)
        fn(ls)
        p = os.path.join(E.OUT, "replay", "selftest", "corrupt-%s.ndjson" % name)
        open(p, "w").write("\n".join(json.dumps(e, separators=(",", ":")) for e in ls) + "\n")
        before = len(E.CHAN["drift"])
        E.validate(p, "selftest-" + name, parts=1)
        got = sorted({d["w"] for d in E.CHAN["drift"][before:]})
        good = want in got
        print("selftest %-22s -> %s %s" % (name, got, "ok" if good else "NOT REPORTED AS %s" % want))
        return good

    pushes = [i for i, e in enumerate(lines) if e["ev"] == "push" and e.get("kind") == "submit"]
    commits = [i for i, e in enumerate(lines) if e["ev"] == "push" and e.get("kind") == "commit"]
    drains = [i for i, e in enumerate(lines) if e["ev"] == "drain" and e.get("t")]

    def push_removed(ls):
        del ls[pushes[0]]

    def kind_changed(ls):
        ls[commits[0]]["kind"] = "drop"

    def drain_removed(ls):
        del ls[drains[0]]

    if E.CHAN["drift"]:
        print("selftest: the unchanged trace drifts from the channel model:", E.CHAN["drift"][:3])
        return 1
    chan_ok = all([
        chan("chan-push-removed", push_removed, "batch-is-not-what-was-drained"),
        chan("chan-kind-changed", kind_changed, "batch-is-not-what-was-drained"),
        chan("chan-drain-removed", drain_removed, "batch-is-not-what-was-drained"),
    ])
    E.CHAN["drift"].clear()
    if not chan_ok:
        return 1

    # the collector model (TraceColl.tla / Collector.tla) likewise: a submitted set removed from a batch, a record's
    # parent changed in a report, a retained entry invented
    def coll(name, fn, want):
        ls = copy.deepcopy(lines)
        fn(ls)
        p = os.path.join(E.OUT, "replay", "selftest", "corrupt-%s.ndjson" % name)
        open(p, "w").write("\n".join(json.dumps(e, separators=(",", ":")) for e in ls) + "\n")
        before = len(E.COLL["drift"])
        E.validate(p, "selftest-" + name, parts=1)
        got = sorted({d["w"] for d in E.COLL["drift"][before:]})
        good = want in got
        print("selftest %-22s -> %s %s" % (name, got, "ok" if good else "NOT REPORTED AS %s" % want))
        return good

    batches = [i for i, e in enumerate(lines) if e["ev"] == "batch" and e["subs"]]
    afters = [i for i, e in enumerate(lines) if e["ev"] == "after"]

    def set_removed(ls):
        del ls[batches[0]]["subs"][0]

    def rec_parent(ls):
        ls[reports[0]]["recs"][0]["parent"] = "00000000000000aa"

    def entry_invented(ls):
        ls[afters[0]]["active"].append({"cid": 4242, "sets": 0, "dang": 0})

    if E.COLL["drift"]:
        print("selftest: the unchanged trace drifts from the collector model:", E.COLL["drift"][:3])
        return 1
    coll_ok = all([
        coll("coll-set-removed", set_removed, "reported-records-differ"),
        coll("coll-record-parent", rec_parent, "reported-records-differ"),
        coll("coll-entry-invented", entry_invented, "retained-state-differs"),
    ]) if batches and afters else False
    E.COLL["drift"].clear()
    if not coll_ok:
        print("selftest: collector conformance is not bound to the trace")
        return 1

    ok = all([
        corrupt("parent-id", parent, "C02"),
        corrupt("report-removed", drop_report, "C01"),
        corrupt("record-duplicated", dup_record, "C01"),
        corrupt("event-renamed", event_name, "C06") if with_events else True,
        corrupt("trace-id", trace_id, "C02"),
        corrupt("duration", duration, "C18"),
        corrupt("retained-entry", stats, "C08"),
    ])
    print("selftest: %d behaviours replayed and accepted; corruptions %s" % (consumed, "all rejected" if ok else "NOT all rejected"))
    return 0 if ok else 1


if __name__ == "__main__":
    sys.exit(main())
