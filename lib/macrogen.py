#!/usr/bin/env python3
"""C15: turns the cases TLC prints for spec/side/Macro.tla into Rust twin functions (plain and
#[trace]-annotated) in macroharness/src/gen.rs."""
import json, os, sys

sys.path.insert(0, os.path.dirname(os.path.abspath(__file__)))


def body_src(body, traced, is_async):
    out = []
    for i, s in enumerate(body, 1):
        if s == "E":
            out.append('log.push(format!("e:{}", %d));' % i)
        elif s == "Ref":
            out.append('log.push(format!("ref:{}:{}", %d, r));' % i)
        elif s == "Mov":
            out.append('let moved = s; log.push(format!("mov:{}:{}", %d, moved));' % i)
        elif s == "Ok":
            out.append("let _x%d: i32 = crate::ok_fn(log, %d)?;" % (i, i))
        elif s == "Err":
            out.append("let _x%d: i32 = crate::err_fn(log, %d)?;" % (i, i))
        elif s == "Ret":
            out.append("if go { return Ok(100 + %d); }" % i)
        elif s == "Pan":
            out.append('if go { panic!("bang{}", %d); }' % i)
        elif s == "Aw":
            out.append('log.push(format!("aw:{}", %d)); crate::Pend(false).await;' % i)
        elif s == "In":
            out.append("crate::%s(log, %d);" % ("inner_traced" if traced else "inner_plain", i))
    return "\n        ".join(out)


def attr(case, n):
    args = []
    if case["kind"] in ("eop", "atrait_eop"):
        args.append("enter_on_poll = true")
    if case["naming"] in ("short", "short_f"):
        args.append("short_name = true")
    elif case["naming"] == "custom":
        args.append('name = "custom_%d"' % n)
    p = case["props"] if case["kind"] not in ("eop", "atrait_eop") else "none"
    if p == "closing":
        args.append('properties = { "k": "limit 100}}" }')
    elif p == "literal":
        args.append('properties = { "k1": "v1", "k2": "v 2" }')
    elif p == "format":
        args.append('properties = { "k": "a={a} r={r}" }')
    elif p == "escaped":
        args.append('properties = { "k": "{{x}}" }')
    elif p == "both":
        args.append('properties = { "k": "{{{a}}}" }')
    elif p == "recording":
        # an argument whose Display implementation itself records something through the local parent
        args.append('properties = { "k": "a={a} w={w}", "k2": "v2" }')
    return "#[fastrace::trace(%s)]" % ", ".join(args) if args else "#[fastrace::trace]"


def expected_props(case):
    p = case["props"] if case["kind"] not in ("eop", "atrait_eop") else "none"
    return {"closing": [["k", "limit 100}"]], "none": [], "literal": [["k1", "v1"], ["k2", "v 2"]], "format": [["k", "a=1 r=rr"]], "escaped": [["k", "{x}"]], "both": [["k", "{1}"]], "recording": [["k", "a=1 w=W"], ["k2", "v2"]]}[p]


PARAMS = "log: &mut Log, a: i32, s: String, r: &str, go: bool, w: crate::Rec, path: &mut String"
ARGS = '1, "ss".to_string(), "rr", true, crate::Rec'


def gen_case(n, case):
    kind = case["kind"]
    is_async = kind in ("async", "eop", "amethod", "atrait", "atrait_eop")
    is_method = kind in ("method", "amethod", "atrait", "atrait_eop")
    head = "*path = fastrace::func_path!().to_string();"
    fns = []
    isf = case["naming"] in ("default_f", "short_f")
    fname = {"plain": "g" if isf else "plain_%d" % n, "traced": "f" if isf else "traced_%d" % n}
    for which in ("plain", "traced"):
        name = fname[which]
        a = attr(case, n) if which == "traced" else ""
        b = body_src(case["body"], which == "traced", is_async)
        asy = "async " if is_async else ""
        if kind == "generic":
            sig = "fn %s<T: std::fmt::Display + Copy>(log: &mut Log, a: T, s: String, r: &str, go: bool, w: crate::Rec, path: &mut String) -> Result<i32, String>" % name
        elif kind == "lifetime":
            sig = "fn %s<'x>(log: &'x mut Log, a: i32, s: String, r: &'x str, go: bool, w: crate::Rec, path: &'x mut String) -> Result<i32, String>" % name
        elif is_method:
            sig = "%sfn %s(&self, %s) -> Result<i32, String>" % (asy, name, PARAMS)
        else:
            sig = "%sfn %s(%s) -> Result<i32, String>" % (asy, name, PARAMS)
        fns.append((a, sig, "%s\n        %s\n        Ok(42)" % (head, b)))
    if kind in ("atrait", "atrait_eop"):
        decl = "    #[async_trait::async_trait(?Send)]\n    pub trait T {\n" + "".join("        %s;\n" % sig for _, sig in [(f[0], f[1]) for f in fns]) + "    }\n"
        impl = "    #[async_trait::async_trait(?Send)]\n    impl T for S {\n" + "".join("        %s\n        %s {\n        %s\n        }\n" % f for f in fns) + "    }\n"
        defs = "    pub struct S;\n" + decl + impl
    elif is_method:
        defs = "    pub struct S;\n    impl S {\n" + "".join("        %s\n        pub %s {\n        %s\n        }\n" % f for f in fns) + "    }\n"
    else:
        defs = "".join("    %s\n    pub %s {\n        %s\n    }\n" % f for f in fns)

    def call(which, log, path):
        name = fname[which]
        recv = "S." if is_method else ""
        c = "%s%s(&mut %s, %s, &mut %s)" % (recv, name, log, ARGS, path)
        if is_async:
            return "{ let (r, n) = crate::block_on(%s); polls = n; r }" % c
        return c

    if kind == "atrait":
        # called under one local parent, polled under another
        split = """
        let mut slog = Log::new(); let mut spath = String::new();
        let split = {
            let (ra, rb) = crate::split_begin();
            let fut = { let _g = ra.set_local_parent(); S.%s(&mut slog, %s, &mut spath) };
            { let _g = rb.set_local_parent(); let _ = catch_unwind(AssertUnwindSafe(|| crate::block_on(fut))); }
            crate::split_end(ra, rb)
        };""" % (fname["traced"], ARGS)
    else:
        split = "        let split = Value::Array(vec![]);"
    if case["naming"] == "short_f":
        want_name = '"f".to_string()'
    elif case["naming"] == "default_f":
        # the plain twin is called `g`: its path with that segment renamed
        want_name = 'ppath.replace("::g::", "::f::").strip_suffix("::g").map(|p| format!("{p}::f")).unwrap_or_else(|| ppath.replace("::g::", "::f::"))'
    elif case["naming"] == "short":
        want_name = '"traced_%d".to_string()' % n
    elif case["naming"] == "custom":
        want_name = '"custom_%d".to_string()' % n
    else:
        # "the function's full path as func_path!() yields it in the body" of the unannotated function
        want_name = 'ppath.replace("plain_%d", "traced_%d")' % (n, n)
    run = """
    pub fn run() -> Value {
        let case: Value = serde_json::from_str(%s).unwrap();
        let mut polls = 0usize;
        let mut plog = Log::new(); let mut ppath = String::new();
        let pres = catch_unwind(AssertUnwindSafe(|| %s));
        let ppolls = polls;
        let mut tlog = Log::new(); let mut tpath = String::new(); let mut tres = None;
        let (recs, root) = crate::traced_run(true, &mut || { tres = Some(catch_unwind(AssertUnwindSafe(|| %s))); });
        let tpolls = polls;
        let mut nlog = Log::new(); let mut npath = String::new(); let mut nres = None;
        let (recs0, _) = crate::traced_run(false, &mut || { nres = Some(catch_unwind(AssertUnwindSafe(|| %s))); });
%s
        let pairs = |l: &Log| Value::Array(l.iter().map(|e| { let mut it = e.splitn(3, ':'); let t = it.next().unwrap_or(""); let i: u32 = it.next().and_then(|x| x.parse().ok()).unwrap_or(0); json!([t, i, it.next().unwrap_or("")]) }).collect());
        json!({"ev": "macro", "id": %d, "case": case,
               "plain": {"log": pairs(&plog), "out": crate::outcome(pres), "path": ppath, "polls": ppolls},
               "traced": {"log": pairs(&tlog), "out": crate::outcome(tres.unwrap()), "path": tpath.clone(), "polls": tpolls},
               "noparent": {"log": pairs(&nlog), "out": crate::outcome(nres.unwrap()), "recs": recs0.len()},
               "want_name": %s, "want_props": %s, "split": split,
               "recs": crate::recs_json(&recs, root)})
    }
""" % (json.dumps(json.dumps(case)), call("plain", "plog", "ppath"), call("traced", "tlog", "tpath"), call("traced", "nlog", "npath"), split, n, want_name,
       "json!(%s)" % json.dumps(expected_props(case)))
    return "pub mod c%d {\n    #![allow(unused)]\n    use super::*;\n%s%s}\n" % (n, defs, run)


def generate(cases, path):
    parts = ["// generated by lib/macrogen.py from the cases of spec/side/Macro.tla - do not edit\n",
             "#![allow(unused, non_snake_case, clippy::all)]\n",
             "use std::panic::{catch_unwind, AssertUnwindSafe};\nuse serde_json::{json, Value};\nuse crate::Log;\n\n"]
    for n, c in enumerate(cases):
        parts.append(gen_case(n, c))
    parts.append("pub fn run_all() -> Vec<Value> {\n    vec![\n" + "".join("        c%d::run(),\n" % n for n in range(len(cases))) + "    ]\n}\n")
    open(path, "w").write("".join(parts))
