#!/bin/sh
# usage: lib/confirm.sh <worktree> <outdir>     confirms a sub-agent's change in its scratch worktree:
#   demo passes on HEAD, fails with patch.diff applied, the repository's suite passes twice with it.
# Appends the result to seeded/confirm-log.txt.  Leaves the worktree at HEAD.
wt="$1"; out="$2"; log="$(cd "$(dirname "$0")/.." && pwd)/seeded/confirm-log.txt"
export CARGO_NET_OFFLINE=true
cd "$wt" || exit 2
git checkout -q -- . ; git status --short | grep -v '^??' && { echo "worktree dirty"; exit 2; }
demo="$(cat "$out/demo_path.txt" | tr -d ' \n')"
mkdir -p "$(dirname "$demo")"; cp "$out/demo.rs" "$demo"
crate="$(echo "$demo" | cut -d/ -f1)"; tname="$(basename "$demo" .rs)"
pk="$crate"; feat="--features fastrace/enable"; [ "$crate" = fastrace ] && { pk="fastrace@0.7.9"; feat=""; }
run_demo() { cargo test -p "$pk" $feat --test "$tname" --offline -j 8 2>&1 | grep -E '^test result|^error: test failed' | tr '\n' ' '; }
{
echo "== $(basename "$wt") $(basename "$out") demo=$demo"
echo "  without: $(run_demo)"
git apply "$out/patch.diff" || { echo "  patch does not apply"; exit 2; }
echo "  changed: $(git diff --shortstat)"
echo "  with:    $(run_demo)"
rm -f "$demo"
for i in 1 2; do echo "  suite:   $(cargo test --workspace --no-fail-fast --offline -j 8 2>&1 | grep -E '^test result' | sed -E 's/test result: [a-zA-Z]+\. //; s/; [0-9]+ ignored.*//' | tr '\n' ';' )"; done
git checkout -q -- .
} 2>&1 | tee -a "$log"
