"""Per-property driver: model check -> emit behaviours -> replay on the real code -> validate -> verdict."""
import json, os, sys, time, random, shutil, subprocess

import engine as E
from catalogue import INSTANCES, EXTRA
from plan import PLAN, SIDE


def write_evidence(prop, tier, seed, level, coverage, wall, violations, assumptions):
    os.makedirs(E.EVID, exist_ok=True)
    ev = dict(property_id=prop, tier=tier, seed=seed, level=level, coverage=coverage, assumptions=assumptions,
              wall_s=round(wall, 2), violations=violations)
    tmp = os.path.join(E.EVID, prop + ".json.tmp")
    json.dump(ev, open(tmp, "w"), indent=1)
    os.replace(tmp, os.path.join(E.EVID, prop + ".json"))


def sample_of(beh):
    return [s.get("op", s.get("ev")) + ("@%d" % s["t"] if "t" in s else "") for s in beh["steps"]]


def run_property(prop, tier, seed, replay_file=None):
    t0 = time.time()
    fixed, known = E.load_known()
    fixes = E.current_fixes()
    plan = PLAN[prop]
    os.makedirs(E.OUT, exist_ok=True)
    build_s = E.build_harness()
    if plan.get("needs_off"):
        build_s += E.build_harness(off=True)
    E.log("harness built in %.1fs; model switches on: %s" % (build_s, ",".join(fixes) or "-"))

    insts = plan[tier] if tier in plan else plan["quick"]
    workers = 8 if tier == "quick" else 14
    tot = dict(states=0, transitions=0, behaviours=0, runs=0, misses=0, hung=0, model_cex=0)
    samples, per_instance, all_new, all_listed = [], [], [], []
    beh_cache = {}
    vacuity = []

    # ---- a stored violation is replayed on its own
    if replay_file:
        rec = json.load(open(replay_file))
        trace, st = E.replay([rec["behaviour"]], rec["instance"], prop + "-replay", seed)
        viols, consumed = E.validate(trace, prop + "-replay", parts=1)
        new, listed = E.classify(viols, prop, known)
        for v in new:
            print("VIOLATION property=%s replay=%s  %s %s" % (prop, replay_file, v["w"], printable(v["d"][:200])))
        for v, k in listed:
            print("KNOWN-FINDING: property=%s %s %s" % (prop, k["id"], v["w"]))
        return 1 if new else 0

    # ---- non-vacuity: the pinned variant of a litmus must violate the invariant in the model
    for ent in plan.get("vacuity", []):
        name, drop_fixes = ent[0], ent[1]
        mut = ent[2] if len(ent) > 2 else None
        inst, emit, opts = INSTANCES[name]
        if mut:
            inst = dict(inst, mut=mut)
        fx = [f for f in fixes if f not in drop_fixes]
        r = E.run_tlc(name + "_pinned", inst, fx, [prop], None, workers=4, timeout=180)
        vacuity.append(dict(instance=name, without=drop_fixes, mutant=mut, violated=r["violated"], states=r["distinct"]))
        E.log("vacuity %s %s: %s" % (name, ("with the model mutant " + mut) if mut else ("without %s" % drop_fixes), "violated (good)" if r["violated"] else "NOT violated"))
        if not r["violated"]:
            # the standing non-vacuity demonstration failed: the check cannot be trusted
            raise E.ToolError("vacuity variant %s of %s is not violated in the model" % (mut or drop_fixes, name))

    # ---- the command channel at the grain of single ring operations: safety and liveness under fairness
    chan_model = None
    if prop in ("C01", "C04", "C07", "C08", "C09"):
        chan_model = E.channel_model(tier, fixes)
        tot["states"] += chan_model["states"]
        tot["transitions"] += chan_model["transitions"]
        E.log("Channel.tla: %d distinct states, invariants %s, liveness %s hold; pinned variants violate %s" % (
            chan_model["states"], ",".join(chan_model["invariants"]), ",".join(chan_model["liveness_under_fairness"]),
            ",".join(v["expected"] for v in chan_model["pinned_variants"])))

    for entry in insts:
        name = entry if isinstance(entry, str) else entry[0]
        over = {} if isinstance(entry, str) else entry[1]
        if name.startswith("stress:"):
            # free-running executions of an instance's one-thread programs (implementation -> specification)
            iname = name[7:]
            inst, emit, opts = INSTANCES[iname]
            opts = dict(opts)
            opts.update(over)
            c = dict(E.DEFAULTS)
            c.update(inst)
            c.update(opts.get("cfg", {}))
            if iname not in beh_cache:
                r0 = E.run_tlc(iname, inst, fixes, [prop], emit, workers=workers, timeout=600, seed=seed)
                beh_cache[iname] = [b for b in r0["behaviours"] if not b.get("prefix")]
            progs = beh_cache[iname]
            rnd = random.Random(seed + 11)
            if len(progs) > 2000:
                progs = rnd.sample(progs, 2000)
            rounds = opts.get("rounds", 150 if tier == "quick" else 3000)
            trace = E.stress(progs, c, prop + "-stress-" + iname, seed, threads=opts.get("threads", 4), rounds=rounds, interval_us=opts.get("interval_us", 150))
            viols, consumed = E.validate(trace, prop + "-stress-" + iname, parts=8)
            new, listed = E.classify(viols, prop, known)
            idle = [json.loads(l) for l in open(trace) if '"ev":"idle"' in l]
            tot["runs"] += consumed
            per_instance.append(dict(instance=name, states=0, transitions=0, depth=0, emitted=len(progs), replayed=consumed, validated=consumed,
                                     steering_misses=0, tlc_wall_s=0, model_violates=False, timed_out=False,
                                     other_property_violations=len([v for v in viols if v["p"] != prop]), shuffled=0,
                                     free_running=dict(threads=opts.get("threads", 4), rounds=rounds, interval_us=opts.get("interval_us", 150),
                                                       rounds_without_flush=len(idle), max_delivery_delay_us=max([x.get("delay_us", 0) for x in idle] or [0]))))
            E.log("%s: %d free-running rounds (%d threads, real background collector) validated; %d of them waited for delivery without flush() (largest delay %d us)"
                  % (name, consumed, opts.get("threads", 4), len(idle), max([x.get("delay_us", 0) for x in idle] or [0])))
            for v in new:
                vdir = os.path.join(E.OUT, prop)
                os.makedirs(vdir, exist_ok=True)
                p = os.path.join(vdir, "violation-%d.json" % len(all_new))
                json.dump(dict(property=prop, instance=c, instance_name=name, violation=v, note="free-running round %s of %s: re-run the check; not replayable step by step" % (v["run"], trace)), open(p, "w"), indent=1)
                all_new.append((v, p))
            all_listed += listed
            continue
        if name.split(":")[0] in ("ids", "burst", "burstc", "burstr", "burstm", "dup", "withline", "overlap"):
            # whole-run observations of the real library, each decided by one clause of Abs (TraceAbs):
            #   ids:N     C02 "ids are distinct for distinct spans": ids are a random per-thread prefix plus a counter,
            #             so only many threads can show a clash (Ids)
            #   burst:N   C01 "at the latest when a flush() called afterwards returns" with N commands backlogged on one
            #             queue and no cycle in between; burstc: cancelable, the spans finished on another thread (Burst)
            mode, n = name.split(":")[0], int(name.split(":")[1])
            d = os.path.join(E.OUT, "replay", prop + "-" + mode)
            os.makedirs(d, exist_ok=True)
            trace = os.path.join(d, "trace.ndjson")
            #   dup:1     C06 with attachments that are equal to each other (Dup)
            #   withline:1  C07 / C06: with_property on a local span under a scope opened later (known finding D20), in a child process
            #   overlap:1   C01: a flush() that overlaps a cycle which has already drained the queues (events validated one by one)
            #   burstr:N    C09 on the built-in capacities: N traces started and finished on one thread with no cycle in between
            #               (every call returns; a trace started after the drain is delivered completely) (BurstR)
            #   burstm:N    C01 / C08: six queues in one sweep, N finished spans in each of four, a root started on the last
            #               registered and finished on the first registered: all delivered by one flush(), nothing kept
            cmd = [E.HBIN, "burstm", "--spans", str(n), "--out", trace] if mode == "burstm" else [E.HBIN, "burstr", "--spans", str(n), "--out", trace] if mode == "burstr" else [E.HBIN, "overlap", "--out", trace] if mode == "overlap" else [E.HBIN, "withline", "--out", trace] if mode == "withline" else [E.HBIN, "dup", "--out", trace] if mode == "dup" else [E.HBIN, "ids", "--threads", str(n), "--out", trace] if mode == "ids" else \
                  [E.HBIN, "burst", "--spans", str(n), "--out", trace] + (["--cancelable", "--cross"] if mode == "burstc" else [])
            r = subprocess.run(cmd, stdout=subprocess.PIPE, stderr=subprocess.PIPE, text=True, timeout=600)
            if r.returncode != 0:
                raise E.ToolError("%s harness failed: %s" % (mode, r.stderr[-1000:]))
            viols, consumed = E.validate(trace, prop + "-" + mode, parts=1)
            new, listed = E.classify(viols, prop, known)
            tot["runs"] += consumed
            per_instance.append(dict(instance=name, states=0, transitions=0, depth=0, emitted=1, replayed=1, validated=consumed, steering_misses=0, tlc_wall_s=0,
                                     model_violates=False, timed_out=False, other_property_violations=0, shuffled=0, threads=n))
            E.log("%s: %s validated" % (name, ("the ids given to 3 spans on each of %d short-lived threads (non-zero, pairwise distinct)" % n) if mode == "ids"
                                            else "equal properties and events attached several times to one span" if mode == "dup"
                                            else "with_property on a local span that is not the innermost handle (child process)" if mode == "withline"
                                            else "a flush() overlapping a cycle that is held inside report()" if mode == "overlap"
                                            else ("six queues in one sweep, %d finished spans in each of four, a root across the first and the last" % n) if mode == "burstm"
                                            else ("%d traces started and finished on one thread with no cycle in between, then a trace after the drain" % n) if mode == "burstr"
                                            else ("a backlog of %d finished spans on one queue, then one flush()" % n)))
            for v in new:
                vdir = os.path.join(E.OUT, prop)
                os.makedirs(vdir, exist_ok=True)
                p = os.path.join(vdir, "violation-%d.json" % len(all_new))
                shutil.copy(trace, p)
                all_new.append((v, p))
            all_listed += listed
            continue
        if name.startswith("extra:"):
            # hand-written behaviours (what the model cannot express): replayed and validated like the others
            ex = EXTRA[name[6:]]
            c = dict(E.DEFAULTS)
            c.update(ex["cfg"])
            behs = ex["behaviours"] * ex.get("repeat", 1)
            trace, st = E.replay(behs, c, prop + "-" + name[6:], seed)
            viols, consumed = E.validate(trace, prop + "-" + name[6:], parts=1 if ex.get("repeat") else 2)
            new, listed = E.classify(viols, prop, known)
            tot["behaviours"] += len(behs)
            tot["runs"] += consumed
            tot["hung"] += st["hung"]
            per_instance.append(dict(instance=name, states=0, transitions=0, depth=0, emitted=len(behs), replayed=len(behs), validated=consumed,
                                     steering_misses=0, tlc_wall_s=0, model_violates=False, timed_out=False,
                                     other_property_violations=len([v for v in viols if v["p"] != prop]), shuffled=0))
            E.log("%s: %d hand-written behaviours replayed and validated" % (name, consumed))
            for v in new:
                vdir = os.path.join(E.OUT, prop)
                os.makedirs(vdir, exist_ok=True)
                p = os.path.join(vdir, "violation-%d.json" % len(all_new))
                json.dump(dict(property=prop, instance=c, instance_name=name, behaviour=behs[v["run"]], violation=v), open(p, "w"), indent=1)
                all_new.append((v, p))
            all_listed += listed
            continue
        inst, emit, opts = INSTANCES[name]
        opts = dict(opts)
        opts.update(over)
        sim = opts.get("simulate")
        r = E.run_tlc(name, inst, fixes, [prop], emit, workers=workers, timeout=opts.get("timeout", 300 if tier == "quick" else 1500),
                      simulate=sim, seed=seed, maxbeh=opts.get("maxbeh"))
        c = dict(E.DEFAULTS)
        c.update(inst)
        beh_cache[name] = [b for b in r["behaviours"] if not b.get("prefix")]
        behs = r["behaviours"]
        cap = opts.get("cap", 1500 if tier == "quick" else 20000)
        if len(behs) > cap:
            # half of the budget goes to the behaviours that combine the most kinds of operations (the
            # shapes a uniform sample meets least often), the other half is a uniform sample of the rest
            rnd = random.Random(seed)
            kinds = lambda b: len({(x.get("op"), x.get("smp"), x.get("multi")) for x in b["steps"] if x.get("ev") == "call"})
            order = sorted(range(len(behs)), key=lambda i: (-kinds(behs[i]), -len(behs[i]["steps"]), i))
            rich = order[:cap // 2]
            rest = rnd.sample(order[cap // 2:], cap - len(rich))
            behs = [behs[i] for i in sorted(rich + rest)]
        # by default two random schedules for each of (up to) 150 programs of an instance in which collector
        # cycles interleave with calls: the model prints one behaviour per terminal state, which keeps one
        # schedule of the many that end in the same state (DESIGN.md section 14)
        interleaves = c.get("MaxCycles", 0) > 0 or len(c.get("threads", [1])) > 1 or c.get("MaxFlush", 0) > 0
        nsh = opts.get("shuffle", (2 if tier == "quick" else 8) if (emit == "terminal" and interleaves and c.get("ready", True) and c.get("enabled", True)) else 0)
        if nsh and behs:
            # the same programs under random schedules over the stops the real code makes
            rnd = random.Random(seed + 7)
            full = [b for b in behs if not b.get("prefix")]
            if not full:
                # transition-coverage prefixes: the complete programs are the ones with the most calls
                ncalls = lambda b: sum(1 for x in b["steps"] if x.get("ev") == "call")
                top = max(ncalls(b) for b in behs)
                full = [b for b in behs if ncalls(b) == top]
            pick = rnd.sample(full, min(len(full), opts.get("shuffle_programs", 150)))
            behs = behs + [dict(steps=b["steps"], shuffle_seed=rnd.getrandbits(48) + 1) for b in pick for _ in range(nsh)]
        if r["violated"] and r["cex"]:
            # the model itself violates the property: the counterexample is put to the real code
            behs = [dict(steps=r["cex"], prefix=True, cex=True)] + behs
            tot["model_cex"] += 1
        E.log("%s: %d distinct states, %d behaviours (%d replayed), TLC %.1fs%s%s" % (
            name, r["distinct"], len(r["behaviours"]), len(behs), r["wall"],
            ", MODEL VIOLATES" if r["violated"] else "", ", timed out" if r["timed_out"] else ""))
        if r.get("errors"):
            raise E.ToolError("TLC reported errors on %s: %s" % (name, r["errors"][:3]))
        if r.get("stuck"):
            raise E.ToolError("the model of %s has a dead end (invariant NoStuck): behaviours through it are never printed" % name)
        tot["states"] += r["distinct"]
        tot["transitions"] += r["states"]
        trace, st = E.replay(behs, c, prop + "-" + name, seed)
        viols, consumed = E.validate(trace, prop + "-" + name, parts=8)
        new, listed = E.classify(viols, prop, known)
        if st.get("gave_up") and prop != "C07" and not new:
            # what was recorded before the harness gave up shows nothing of this property's own
            raise E.ToolError("the harness hung in more than 50 runs of %s (calls that do not return are C07's business: run ./check C07)" % name)
        tot["behaviours"] += len(behs)
        tot["runs"] += consumed
        tot["misses"] += st["misses"]
        tot["hung"] += st["hung"]
        per_instance.append(dict(instance=name, states=r["distinct"], transitions=r["states"], depth=r["depth"], emitted=len(r["behaviours"]),
                                 replayed=len(behs), validated=consumed, steering_misses=st["misses"], tlc_wall_s=round(r["wall"], 1),
                                 model_violates=r["violated"], timed_out=r["timed_out"],
                                 other_property_violations=len([v for v in viols if v["p"] != prop]), shuffled=sum(1 for b in behs if "shuffle_seed" in b)))
        if behs:
            samples.append(dict(instance=name, behaviour=sample_of(behs[min(len(behs) - 1, 1)])))
        for v in new:
            vdir = os.path.join(E.OUT, prop)
            os.makedirs(vdir, exist_ok=True)
            p = os.path.join(vdir, "violation-%d.json" % len(all_new))
            json.dump(dict(property=prop, instance=c, instance_name=name, behaviour=behs[v["run"]], violation=v), open(p, "w"), indent=1)
            all_new.append((v, p))
        all_listed += listed

    seen = set()
    for v, k in all_listed:
        key = (k["id"], v["w"])
        if key in seen:
            continue
        seen.add(key)
        print("KNOWN-FINDING: property=%s %s (%s) %s" % (prop, k["id"], v["w"], k.get("what", "")))
    for v, p in all_new[:20]:
        print("VIOLATION property=%s replay=%s  %s %s" % (prop, p, v["w"], printable(v["d"][:300])))

    nontrivial = len({tuple(x) for i in per_instance for x in [(i["instance"], k) for k in range(i["validated"])]})
    coverage = dict(
        evaluations=tot["runs"], distinct_nontrivial=nontrivial,
        rule="one evaluation = one behaviour printed by TLC (distinct by construction: duplicates are removed by hash before replay), executed on the real library and validated by TraceAbs.tla; non-trivial = it contains at least one API call besides thread start/exit (every emitted behaviour does)",
        states=tot["states"], transitions=tot["transitions"], traces_validated_against_impl=tot["runs"],
        samples=samples[:6] or [dict(note="no behaviours")],
        instances=per_instance, steering_misses=tot["misses"], hung_runs=tot["hung"],
        model_counterexamples_replayed=tot["model_cex"], vacuity_selftest=vacuity,
        known_finding_instances=len(all_listed), model_switches=fixes,
        exhaustive=all(not i["timed_out"] for i in per_instance),
        channel_model=chan_model,
        channel_conformance=dict(
            what="hook events (ring pushes, parks, refusals, drains, receiver removals, batch composition) of the steered runs folded through "
                 "spec/TraceChan.tla, the trace form of spec/Channel.tla: every event must be an enabled step of the channel model",
            runs=E.CHAN["runs"], events=E.CHAN["events"], drift=len(E.CHAN["drift"]), drift_samples=E.CHAN["drift"][:5]),
        collector_conformance=dict(
            what="every batch the real collector processed in the validated runs (steered and free-running) folded through spec/Collector.tla's "
                 "Process - the operator Fastrace.tla's collector step applies - by spec/TraceColl.tla: the entries the collector keeps afterwards "
                 "(collect ids, buffered sets, parked attachments per id) and the records of the report (trace by trace: ids, parents, number of "
                 "properties and events, order) must be what Process yields",
            runs=E.COLL["runs"], batches=E.COLL["cycles"], records=E.COLL["records"], drift=len(E.COLL["drift"]), drift_samples=E.COLL["drift"][:5]),
    )
    write_evidence(prop, tier, seed, plan.get("level", "model_checking"), coverage, time.time() - t0, len(all_new),
                   ["steered executions are sequentially consistent (one actor at a time): no weak-memory behaviour is explored",
                    "bounds of the instances (DESIGN.md 3.5): small-scope hypothesis beyond them",
                    "the reporter does not panic"])
    return 1 if all_new else 0


def printable(x):
    """Property values under test contain control characters on purpose: keep them out of the terminal."""
    return "".join(ch if 32 <= ord(ch) < 127 else "?" for ch in str(x))


def main(argv):
    if not argv:
        print(__doc__)
        return 2
    prop = argv[0]
    tier = os.environ.get("VERIF_TIER", "quick")
    replay = None
    i = 1
    while i < len(argv):
        if argv[i] == "--tier":
            tier = argv[i + 1]
            i += 2
        elif argv[i] == "--replay":
            replay = argv[i + 1]
            i += 2
        else:
            i += 1
    seed = int(os.environ.get("VERIF_SEED", "1"))
    try:
        if prop in SIDE:
            return SIDE[prop](prop, tier, seed, replay)
        if prop not in PLAN:
            print("no check for", prop, file=sys.stderr)
            return 2
        return run_property(prop, tier, seed, replay)
    except E.ToolError as e:
        print("TOOL ERROR:", e, file=sys.stderr)
        return 2
