#!/bin/sh
# usage: lib/mirror.sh <worktree> <dest>    a copy of /verif (without build output and evidence history) whose harness
# crates path-depend on <worktree> instead of /repo, so that checks can be run against a changed tree without touching
# /repo or /verif/evidence.  Run checks there with:  cd <dest> && ./check Cxx --tier quick
wt="$(realpath "$1")"; dest="$2"
mkdir -p "$dest"
rsync -a --delete --exclude target --exclude out --exclude .git --exclude 'seeded' /verif/ "$dest/"
for f in harness/Cargo.toml harness-off/Cargo.toml sideharness/Cargo.toml macroharness/Cargo.toml lib/engine.py lib/side.py; do
  sed -i "s#/repo/#$wt/#g" "$dest/$f"
done
mkdir -p "$dest/out" "$dest/evidence"
# reuse the channel-model cache (independent of the tree under test)
[ -d /verif/out/chan ] && cp -r /verif/out/chan "$dest/out/" 2>/dev/null
(cd "$dest" && ./setup.sh >/dev/null 2>&1) && echo "mirror ready: $dest -> $wt"
