#!/usr/bin/env python3
"""Engine behind /verif/check: TLC model checking of Fastrace.tla instances, emission of
behaviours, steered replay against the real fastrace, trace validation with TraceAbs.tla,
classification against known_findings.jsonl, evidence files.  Python stdlib only."""
import json, os, re, shutil, subprocess, sys, time, hashlib, random

VERIF = os.path.dirname(os.path.dirname(os.path.abspath(__file__)))
SPEC = os.path.join(VERIF, "spec")
HARNESS = os.path.join(VERIF, "harness")
OUT = os.path.join(VERIF, "out")
EVID = os.path.join(VERIF, "evidence")
KNOWN = os.path.join(VERIF, "known_findings.jsonl")
HBIN = os.path.join(HARNESS, "target", "debug", "fvharness")
HARNESS_OFF = os.path.join(VERIF, "harness-off")
HBIN_OFF = os.path.join(HARNESS_OFF, "target", "debug", "fvharness-off")

ALL_FIXES = ["FixRecv", "FixFifo", "FixCancelDefault", "FixEmptyToken", "FixStackFull", "FixForceStart", "FixReentrant", "FixInSpan", "FixExitOrder", "FixWithLine"]


class ToolError(Exception):
    pass


_T0 = time.time()


def log(*a):
    print("[check %4ds]" % (time.time() - _T0), *a, file=sys.stderr, flush=True)


def load_known():
    fixed, known = [], []
    if os.path.exists(KNOWN):
        for l in open(KNOWN):
            l = l.strip()
            if not l or l.startswith("#"):
                continue
            e = json.loads(l)
            (fixed if e.get("status") == "fixed" else known).append(e)
    return fixed, known


def current_fixes():
    fixed, _ = load_known()
    return sorted({s for e in fixed for s in e.get("switches", [])})


# ----------------------------------------------------------------------------- harness build
def build_harness(off=False):
    if off:
        return build_one(HARNESS_OFF)
    return build_one(HARNESS)


def build_one(HARNESS):
    t0 = time.time()
    env = dict(os.environ, CARGO_NET_OFFLINE="true")
    # the lock file of the repository pins the dependency closure that is in the offline registry
    lock_src = "/repo/Cargo.lock"
    lock_dst = os.path.join(HARNESS, "Cargo.lock")
    if not os.path.exists(lock_dst):
        shutil.copy(lock_src, lock_dst)
    r = subprocess.run(["cargo", "build", "--offline"], cwd=HARNESS, env=env, stdout=subprocess.PIPE, stderr=subprocess.STDOUT, text=True)
    if r.returncode != 0:
        sys.stderr.write(r.stdout[-4000:])
        raise ToolError("harness build failed (does /repo compile with --cfg fastrace_verif?)")
    return time.time() - t0


# ----------------------------------------------------------------------------- TLC instances
def tla_val(v):
    if isinstance(v, bool):
        return "TRUE" if v else "FALSE"
    if isinstance(v, int):
        return str(v)
    if isinstance(v, str):
        return '"%s"' % v
    if isinstance(v, (list, tuple)):
        return "<<" + ", ".join(tla_val(x) for x in v) + ">>"
    if isinstance(v, (set, frozenset)):
        return "{" + ", ".join(tla_val(x) for x in sorted(v, key=str)) + "}"
    if isinstance(v, dict):
        if v and all(isinstance(k, int) for k in v):
            return "(" + " @@ ".join("%d :> %s" % (k, tla_val(x)) for k, x in v.items()) + ")"
        return "[" + ", ".join("%s |-> %s" % (k, tla_val(x)) for k, x in v.items()) + "]"
    raise ValueError(v)


DEFAULTS = dict(
    threads=[1], born=[1], K=8, QCap=10, SCap=10, cancelable=False, enabled=True, ready=True,
    menu=[], prog=None, smp=[True], cross=True, trackcut=False,
    MaxOps=4, MaxSpans=3, MaxRoots=1, MaxTraces=1, MaxScopes=2, MaxLocal=2, MaxAtt=2, MaxLs=1,
    MaxCycles=2, MaxFlush=0, MaxFuts=1, MaxPolls=3, adapters=["fut"], inner=["none", "ls", "ev", "ctx"], distinct_ops=False,
)


def write_instance(name, inst, fixes, check, workdir, emit):
    """Writes MC_<name>.tla/.cfg into workdir. emit in {None, 'terminal', 'edge'}."""
    c = dict(DEFAULTS)
    c.update(inst)
    th = set(c["threads"])
    prog = c["prog"]
    if prog and not c.get("prefix"):
        # a fixed program is its own bound
        for k in ["MaxOps", "MaxSpans", "MaxRoots", "MaxTraces", "MaxScopes", "MaxLocal", "MaxAtt", "MaxLs"]:
            c[k] = max(c[k], 9)
    if prog:
        progtxt = "[t \\in MCThreads |-> CASE " + " [] ".join(
            "t = %d -> %s" % (t, tla_val(prog.get(t, []))) for t in sorted(th)) + "]"
    else:
        progtxt = "[t \\in MCThreads |-> <<>>]"
    mod = "MC_" + name
    tla = f"""---- MODULE {mod} ----
EXTENDS Fastrace
MCThreads == {tla_val(th)}
MCBorn == {tla_val(set(c['born']))}
MCMenu == {tla_val(set(c['menu']))}
MCProg == {progtxt}
MCSmp == {tla_val(set(c['smp']))}
MCCheck == {tla_val(set(check))}
MCAdapters == {tla_val(set(c['adapters']))}
MCInner == {tla_val(set(c['inner']))}
====
"""
    cfg = ["CONSTANTS", "  Threads <- MCThreads", "  Born <- MCBorn", "  Menu <- MCMenu", "  Prog <- MCProg",
           "  SmpChoices <- MCSmp", "  Check <- MCCheck", "  None = None",
           f"  K = {c['K']}", f"  QCap = {c['QCap']}", f"  SCap = {c['SCap']}",
           f"  Cancelable = {tla_val(c['cancelable'])}", f"  Enabled = {tla_val(c['enabled'])}", f"  Ready = {tla_val(c['ready'])}",
           f"  CrossThread = {tla_val(c['cross'])}", f"  TrackCut = {tla_val(c['trackcut'])}", f"  DistinctOps = {tla_val(c['distinct_ops'])}"]
    cfg += ["  AdapterKinds <- MCAdapters", "  InnerKinds <- MCInner"]
    for k in ["MaxOps", "MaxSpans", "MaxRoots", "MaxTraces", "MaxScopes", "MaxLocal", "MaxAtt", "MaxLs", "MaxCycles", "MaxFlush", "MaxFuts", "MaxPolls"]:
        cfg.append(f"  {k} = {c[k]}")
    for f in ALL_FIXES:
        cfg.append(f"  {f} = {tla_val(f in fixes)}")
    cfg.append('  Mut = "%s"' % c.get("mut", "none"))
    cfg.append("  Prefix = %s" % tla_val(bool(c.get("prefix", False))))
    cfg += ["SPECIFICATION Spec", "VIEW view", "CHECK_DEADLOCK FALSE", "INVARIANT NoViolation"]
    # no dead ends: a state without successors that is not the quiescent end would be a behaviour that is
    # never printed (and, for C07, a call that never returns in the design)
    cfg.append("INVARIANT NoStuck")
    if emit == "terminal":
        cfg.append("INVARIANT Emit")
    if emit == "edge":
        cfg.append("ACTION_CONSTRAINT Edge")
    os.makedirs(workdir, exist_ok=True)
    for f in os.listdir(SPEC):
        if f.endswith(".tla"):
            shutil.copy(os.path.join(SPEC, f), workdir)
    open(os.path.join(workdir, mod + ".tla"), "w").write(tla)
    open(os.path.join(workdir, mod + ".cfg"), "w").write("\n".join(cfg) + "\n")
    return mod, c


REPLAY_RE = re.compile(r'^<<"(REPLAY|EDGE)", "(.*)">>$')


def unescape(s):
    return s.replace('\\"', '"').replace("\\\\", "\\")


def run_tlc(name, inst, fixes, check, emit, workers=8, timeout=600, simulate=None, seed=0, maxbeh=None, expect_violation=False):
    """Runs TLC on an instance. Returns dict(states, distinct, violated, behaviours, wall, cex)."""
    # one directory per check process: several checks may run at the same time and share instances
    workdir = os.path.join(OUT, "tlc", "%s.%d" % (name, os.getpid()))
    shutil.rmtree(workdir, ignore_errors=True)
    shutil.rmtree(workdir, ignore_errors=True)
    mod, c = write_instance(name, inst, fixes, check, workdir, emit)
    cmd = ["timeout", str(timeout), "tlc", "-workers", str(workers), "-metadir", os.path.join(workdir, "states"), "-cleanup",
           "-noGenerateSpecTE", "-config", mod + ".cfg"]
    if simulate:
        cmd += ["-simulate", "num=%d" % simulate["num"], "-depth", str(simulate.get("depth", 200)), "-seed", str(seed)]
    cmd.append(mod + ".tla")
    t0 = time.time()
    outp = os.path.join(workdir, "tlc.out")
    with open(outp, "w") as fo:
        r = subprocess.run(cmd, cwd=workdir, stdout=fo, stderr=subprocess.STDOUT, env=dict(os.environ, JAVA_TOOL_OPTIONS="-Xss512m"))
    wall = time.time() - t0
    res = dict(name=name, states=0, distinct=0, violated=False, behaviours=[], wall=wall, cex=None, timed_out=(r.returncode == 124), depth=0)
    seen = set()
    cex_lines = []
    in_cex = False
    born = sorted(c["born"])
    prefix_steps = [{"ev": "spawn", "t": t} for t in born]
    with open(outp) as f:
        for line in f:
            m = REPLAY_RE.match(line.rstrip("\n"))
            if m:
                if maxbeh is not None and len(res["behaviours"]) >= maxbeh:
                    continue
                txt = unescape(m.group(2))
                h = hashlib.md5(txt.encode()).digest()
                if h in seen:
                    continue
                seen.add(h)
                try:
                    steps = json.loads(txt)
                except Exception:
                    continue
                res["behaviours"].append(dict(steps=prefix_steps + steps, prefix=(m.group(1) == "EDGE")))
                continue
            mm = re.search(r"(\d+) states generated, (\d+) distinct states found", line)
            if mm:
                res["states"], res["distinct"] = int(mm.group(1)), int(mm.group(2))
            mm = re.search(r"The depth of the complete state graph search is (\d+)", line)
            if mm:
                res["depth"] = int(mm.group(1))
            if "is violated" in line and "Invariant" in line:
                res["violated"] = True
                res["violated_inv"] = line.strip()
                res["stuck"] = "NoStuck" in line
                in_cex = True
            if in_cex:
                cex_lines.append(line)
            if line.startswith("Error:") and "Invariant" not in line and "behavior up to" not in line and not in_cex:
                res.setdefault("errors", []).append(line.strip())
    if res["violated"]:
        res["cex"] = extract_hist("".join(cex_lines), prefix_steps)
    if r.returncode not in (0, 12, 124) and not res["violated"] and not simulate:
        # 12 = safety violation; anything else without a violation is a tool problem
        tail = open(outp).read()[-3000:]
        if "Error" in tail and not res["violated"]:
            raise ToolError("TLC failed on %s:\n%s" % (name, tail))
    return res


def extract_hist(txt, prefix_steps):
    """Pulls the last value of `hist` out of a TLC counterexample and converts it to JSON steps."""
    idx = txt.rfind("/\\ hist = ")
    if idx < 0:
        return None
    rest = txt[idx + len("/\\ hist = "):]
    # the value ends at the next line starting with "/\ " or a blank line
    m = re.search(r"\n(/\\ |\n|State \d+|\d+ states generated)", rest)
    val = rest[: m.start()] if m else rest
    try:
        return prefix_steps + tla_to_json(val.strip())
    except Exception as e:  # pragma: no cover
        return None


def tla_to_json(s):
    """Parses the subset of TLA+ values TLC prints for hist: << >>, [a |-> v], strings, ints, TRUE/FALSE."""
    pos = 0

    def ws():
        nonlocal pos
        while pos < len(s) and s[pos] in " \n\t\r":
            pos += 1

    def val():
        nonlocal pos
        ws()
        if s.startswith("<<", pos):
            pos += 2
            out = []
            ws()
            if s.startswith(">>", pos):
                pos += 2
                return out
            while True:
                out.append(val())
                ws()
                if s.startswith(",", pos):
                    pos += 1
                    continue
                if s.startswith(">>", pos):
                    pos += 2
                    return out
                raise ValueError("seq at %d" % pos)
        if s[pos] == "[":
            pos += 1
            out = {}
            while True:
                ws()
                m = re.match(r"([A-Za-z_][A-Za-z0-9_]*)\s*\|->", s[pos:])
                if not m:
                    raise ValueError("rec at %d" % pos)
                pos += m.end()
                out[m.group(1)] = val()
                ws()
                if s[pos] == ",":
                    pos += 1
                    continue
                if s[pos] == "]":
                    pos += 1
                    return out
                raise ValueError("rec2 at %d" % pos)
        if s[pos] == '"':
            e = s.index('"', pos + 1)
            v = s[pos + 1:e]
            pos = e + 1
            return v
        m = re.match(r"-?\d+", s[pos:])
        if m:
            pos += m.end()
            return int(m.group(0))
        if s.startswith("TRUE", pos):
            pos += 4
            return True
        if s.startswith("FALSE", pos):
            pos += 5
            return False
        raise ValueError("value at %d: %r" % (pos, s[pos:pos + 20]))

    return val()


# ----------------------------------------------------------------------------- replay + validation
def harness_opts(c):
    o = []
    if c.get("cancelable"):
        o.append("--cancelable")
    if not c.get("ready", True):
        o.append("--not-ready")
    if not c.get("enabled", True):
        o.append("--disabled")
    if c.get("churn"):
        o.append("--churn")
    if c.get("op_sleep_us"):
        o += ["--op-sleep-us", str(c["op_sleep_us"])]
    o += ["--ring", str(c.get("K", 8)), "--queue", str(c.get("QCap", 10)), "--stack", str(c.get("SCap", 10))]
    return o


def probe(steps, spans=False):
    out = []
    live = []
    for i, st in enumerate(steps):
        out.append(st)
        if st.get("ev") == "call":
            if st.get("op") in ("root", "rootctx", "child", "childl", "mknoop") and "h" in st:
                live.append(st["h"])
            elif st.get("op") in ("drop", "fnew") and st.get("h") in live:
                live.remove(st["h"])
        if st.get("ev") != "call" or st.get("op") in ("exit", "flush", "ctxl", "ctxs", "elapsed"):
            continue
        # not while the call is still in progress: its further pushes are separate steps of that thread
        nxt = next((x for x in steps[i + 1:] if x.get("t") == st.get("t") and x.get("ev") in ("call", "push")), None)
        if nxt is not None and nxt.get("ev") == "push":
            continue
        out.append(dict(ev="call", t=st["t"], op="ctxl"))
        if spans:
            # ... and SpanContext::from_span of every handle that is alive
            for h in live:
                out.append(dict(ev="call", t=st["t"], op="ctxs", h=h))
                # ... and Span::elapsed() (C18: the monotonic time since the span started, None for a span that does not record)
                out.append(dict(ev="call", t=st["t"], op="elapsed", h=h))
    return out


def mark_tails(steps):
    """A poll of an adapter whose next poll is the final one: an exactly sized inner stream knows
    (its size_hint then has upper bound 0)."""
    polls = [i for i, st in enumerate(steps) if st.get("ev") == "call" and st.get("op") == "fpoll"]
    out = list(steps)
    for k, i in enumerate(polls):
        nxt = next((j for j in polls[k + 1:] if steps[j].get("f") == steps[i].get("f")), None)
        if nxt is not None and steps[nxt].get("fin"):
            out[i] = dict(out[i], tail=True)
        if nxt is not None:
            # the name of the next poll's local span: enter_on_poll adapters are built ahead of their poll
            out[i] = dict(out[i], gnext=steps[nxt].get("g"))
    for i, st in enumerate(steps):
        if st.get("ev") == "call" and st.get("op") == "fnew":
            first = next((j for j in polls if j > i and steps[j].get("f") == st.get("f")), None)
            if first is not None:
                out[i] = dict(out[i], gnext=steps[first].get("g"))
    return out


def replay(behaviours, c, tag, seed):
    """Runs the behaviours through the harness (restarting it after a hang). Returns (trace path, stats)."""
    if any(st.get("op") == "fpoll" for b in behaviours for st in b["steps"]):
        behaviours = [dict(b, steps=mark_tails(b["steps"])) for b in behaviours]
    d = os.path.join(OUT, "replay", tag)
    shutil.rmtree(d, ignore_errors=True)
    os.makedirs(d)
    trace = os.path.join(d, "trace.ndjson")
    open(trace, "w").close()
    if c.get("unwind"):
        # in every third behaviour the scopes, local spans and collectors are released by a (caught) panic
        behaviours = [dict(b, steps=[dict(st, unw=True) if (i % 3 == 1 and st.get("op") in ("dropg", "lexit", "lcdrop")) else st for st in b["steps"]])
                      for i, b in enumerate(behaviours)]
    if c.get("probe_ctx"):
        # a context query after every call: pure, so it changes nothing, and Abs checks each answer
        behaviours = [dict(b, steps=probe(b["steps"], c.get("probe_spans", False))) for b in behaviours]
    todo = list(enumerate(behaviours))
    stats = dict(runs=0, misses=0, hung=0, restarts=0)
    part = 0
    while todo:
        inp = os.path.join(d, "beh-%d.jsonl" % part)
        with open(inp, "w") as f:
            for i, b in todo:
                rec = dict(id=i, steps=b["steps"], prefix=b.get("prefix", False))
                if "shuffle_seed" in b:
                    rec["shuffle_seed"] = b["shuffle_seed"]
                f.write(json.dumps(rec) + "\n")
        outp = os.path.join(d, "trace-%d.ndjson" % part)
        cmd = [HBIN if c.get("enabled", True) else HBIN_OFF, "steer", "--in", inp, "--out", outp, "--seed", str(seed)] + harness_opts(c)
        try:
            r = subprocess.run(cmd, stdout=subprocess.PIPE, stderr=subprocess.PIPE, text=True, timeout=1800)
        except subprocess.TimeoutExpired:
            raise ToolError("harness timed out")
        if r.returncode not in (0, 3) and r.returncode >= 0:
            raise ToolError("harness failed (%d): %s" % (r.returncode, r.stderr[-2000:]))
        done = set()
        open_run, last_call = None, None
        with open(outp) as f, open(trace, "a") as g:
            for line in f:
                g.write(line)
                if '"ev":"reset"' in line:
                    open_run = json.loads(line).get("run")
                elif '"ev":"call"' in line:
                    last_call = line
                if '"ev":"end"' in line:
                    e = json.loads(line)
                    done.add(e["run"])
                    open_run = None
                    stats["runs"] += 1
                    stats["misses"] += e.get("misses", 0)
                    stats["hung"] += 1 if e.get("hung") else 0
            if r.returncode < 0:
                # the process was killed by a signal: the code under test aborted it (a panic in a destructor
                # while unwinding, say).  That is data, not a tool failure: the run in progress ends with a
                # `hang` event (the call did not return), the remaining behaviours go to a fresh process.
                lc = json.loads(last_call) if last_call else {}
                if open_run is None:
                    # the harness writes a run's events when the run is over: the run that was in progress is the
                    # first behaviour of this batch that has not ended
                    pending = [(i, b) for i, b in todo if i not in done]
                    if not pending:
                        raise ToolError("harness killed by signal %d after its last run: %s" % (-r.returncode, r.stderr[-1500:]))
                    open_run, beh = pending[0]
                    g.write(json.dumps(dict(ev="reset", run=open_run, cfg=dict(cancelable=bool(c.get("cancelable")), enabled=bool(c.get("enabled", True)),
                                                                             ready=bool(c.get("ready", True)), queue=c.get("QCap", 10), stack=c.get("SCap", 10),
                                                                             ring=c.get("K", 8), foreign=[])), separators=(",", ":")) + "\n")
                    lc = dict(op="a call of behaviour %d" % open_run, unw=any(st.get("unw") for st in beh["steps"]))
                who = "process aborted (signal %d) in %s: %s" % (-r.returncode, lc.get("op", "?"), r.stderr.strip().splitlines()[-1][:200] if r.stderr.strip() else "")
                ev = dict(ev="hang", who=who)
                if lc.get("unw"):
                    ev["p"] = "C10"      # a scope released by unwinding: restoring the local context is C10's business
                g.write(json.dumps(ev, separators=(",", ":")) + "\n")
                g.write(json.dumps(dict(ev="end", run=open_run, misses=0, hung=True), separators=(",", ":")) + "\n")
                done.add(open_run)
                stats["runs"] += 1
                stats["hung"] += 1
        todo = [(i, b) for i, b in todo if i not in done]
        if r.returncode == 0:
            if todo:
                raise ToolError("harness ended without running everything")
            break
        stats["restarts"] += 1
        part += 1
        if stats["restarts"] > 50:
            # every run hangs: what has been recorded (the `hang` events are C07 violations) is validated,
            # the rest is not replayed
            stats["gave_up"] = len(todo)
            break
    return trace, stats


def stress(behaviours, c, tag, seed, threads=4, rounds=200, interval_us=150, idle_every=20):
    """Free-running executions: one-thread programs on several real threads against the real background
    collector (harness `stress`). Returns the trace path."""
    d = os.path.join(OUT, "replay", tag)
    shutil.rmtree(d, ignore_errors=True)
    os.makedirs(d)
    inp = os.path.join(d, "programs.jsonl")
    with open(inp, "w") as f:
        for i, b in enumerate(behaviours):
            f.write(json.dumps(dict(id=i, steps=b["steps"])) + "\n")
    outp = os.path.join(d, "trace.ndjson")
    cmd = [HBIN, "stress", "--in", inp, "--out", outp, "--seed", str(seed), "--threads", str(threads), "--rounds", str(rounds),
           "--interval-us", str(interval_us), "--idle-every", str(idle_every)] + [x for x in harness_opts(c) if x not in ("--churn",)]
    try:
        r = subprocess.run(cmd, stdout=subprocess.PIPE, stderr=subprocess.PIPE, text=True, timeout=1800)
    except subprocess.TimeoutExpired:
        raise ToolError("stress harness timed out")
    if r.returncode != 0:
        raise ToolError("stress harness failed (%d): %s" % (r.returncode, r.stderr[-2000:]))
    return outp


def split_trace(trace, parts, d):
    """Splits a trace file at reset lines into at most `parts` files of similar size."""
    runs = []
    cur = None
    with open(trace) as f:
        for line in f:
            if '"ev":"reset"' in line:
                cur = []
                runs.append(cur)
            if cur is not None:
                cur.append(line)
    if not runs:
        return []
    parts = max(1, min(parts, len(runs)))
    files = []
    per = (len(runs) + parts - 1) // parts
    for k in range(parts):
        chunk = runs[k * per:(k + 1) * per]
        if not chunk:
            continue
        p = os.path.join(d, "chunk-%d.ndjson" % k)
        with open(p, "w") as g:
            for r in chunk:
                g.writelines(r)
        files.append((p, len(chunk)))
    return files


def channel_model(tier, fixes):
    """TLC on spec/Channel.tla (the command channel at the grain of single ring operations): safety for every
    interleaving, and liveness under fairness (what enters a ring is processed without a further call,
    flush() returns also when it overlaps a cycle, a dead thread's receiver is dropped).  The pinned variants
    must fail.  The model does not depend on /repo; it is bound to the code by TraceChan.tla (validate)."""
    import hashlib
    d = os.path.join(OUT, "chan", "work.%d" % os.getpid())
    os.makedirs(d, exist_ok=True)
    files = sorted(f for f in os.listdir(SPEC) if f.startswith("MC_Channel") or f == "Channel.tla")
    h = hashlib.sha1()
    for f in files:
        h.update(open(os.path.join(SPEC, f), "rb").read())
    h.update(("%s %s" % (tier, fixes)).encode())
    cache = os.path.join(OUT, "chan", "result-%s.json" % h.hexdigest()[:16])
    if os.path.exists(cache):
        return json.load(open(cache))
    for f in files:
        shutil.copy(os.path.join(SPEC, f), d)
    sw = {"FixRecv": ["NoDestroy", "ByFlush", "RemovedOnlyDead"], "FixFifo": ["Fifo"], "FixExitOrder": ["ExitPrefix"]}
    live_needs = {"Delivered": "FixRecv", "Settled": "FixRecv"}

    def run(cfgname, edit=None, workers=6, timeout=1500):
        cfg = open(os.path.join(d, cfgname)).read()
        if edit:
            cfg = edit(cfg)
        name = "run-" + cfgname
        open(os.path.join(d, name), "w").write(cfg)
        t0 = time.time()
        r = subprocess.run(["timeout", str(timeout), "tlc", "-workers", str(workers), "-metadir", os.path.join(d, "st-" + cfgname), "-cleanup",
                            "-noGenerateSpecTE", "-config", name, "MC_Channel.tla"], cwd=d, stdout=subprocess.PIPE, stderr=subprocess.STDOUT, text=True)
        txt = r.stdout
        m = re.search(r"(\d+) states generated, (\d+) distinct states found, 0 states left", txt)
        bad = re.findall(r"Invariant (\w+) is violated|Temporal property (\w+) was violated", txt)
        return dict(cfg=cfgname, generated=int(m.group(1)) if m else 0, distinct=int(m.group(2)) if m else 0,
                    violated=[x[0] or x[1] for x in bad], ok="No error has been found" in txt, wall_s=round(time.time() - t0, 1), tail=txt[-1500:])

    def main_edit(cfg):
        for k, invs in sw.items():
            if k not in fixes:
                cfg = cfg.replace("%s = TRUE" % k, "%s = FALSE" % k)
                for i in invs:
                    cfg = re.sub(r"\b%s\b ?" % i, "", cfg)
        for pr, k in live_needs.items():
            if k not in fixes:
                cfg = re.sub(r"\b%s\b ?" % pr, "", cfg)
        return cfg

    main = run("MC_Channel.cfg" if tier == "quick" else "MC_Channel_thorough.cfg", main_edit)
    if not main["ok"]:
        raise ToolError("Channel.tla: TLC did not pass the channel model: %s\n%s" % (main["violated"], main["tail"]))
    variants = []
    for v, expect in (("pinned_recv", "NoDestroy"), ("pinned_fifo", "Fifo"), ("pinned_exit", "ExitPrefix")) + ((("pinned_recv_live", "Delivered"),) if tier != "quick" else ()):
        r = run("MC_Channel_%s.cfg" % v, workers=3, timeout=600)
        variants.append(dict(variant=v, expected=expect, violated=r["violated"]))
        if expect not in r["violated"]:
            raise ToolError("Channel.tla: the pinned variant %s does not violate %s (vacuous invariant?)" % (v, expect))
    cfgtxt = open(os.path.join(d, "run-" + main["cfg"])).read()
    res = dict(module="spec/Channel.tla", config=main["cfg"], states=main["distinct"], transitions=main["generated"], wall_s=main["wall_s"],
               invariants=re.findall(r"^INVARIANTS (.*)$", cfgtxt, re.M)[0].split(), liveness_under_fairness=re.findall(r"^PROPERTIES (.*)$", cfgtxt, re.M)[0].split(),
               pinned_variants=variants)
    json.dump(res, open(cache + ".tmp.%d" % os.getpid(), "w"))
    os.replace(cache + ".tmp.%d" % os.getpid(), cache)
    shutil.rmtree(d, ignore_errors=True)
    return res


# channel conformance (TraceChan.tla) of the runs validated so far in this process: runs whose hook events
# were folded through the channel model, events folded, and every failed enabling condition
CHAN = dict(runs=0, events=0, drift=[])
# collector conformance (TraceColl.tla): runs, processed batches and reported records folded through Collector.tla's
# Process, and every comparison (retained state after the batch, records of the report) that failed
COLL = dict(runs=0, cycles=0, records=0, drift=[])


def validate(trace, tag, parts=8):
    """Runs TraceAbs.tla (and, on the hook events of the same runs, TraceChan.tla) over the trace.
    Returns (violations, runs consumed).  A channel drift that is a property's own clause is returned as
    a violation of that property; the others are only recorded in CHAN (model drift is not a verdict)."""
    d = os.path.join(OUT, "validate", tag)
    shutil.rmtree(d, ignore_errors=True)
    os.makedirs(d)
    for f in os.listdir(SPEC):
        if f.endswith(".tla") or f == "TraceAbs.cfg":
            shutil.copy(os.path.join(SPEC, f), d)
    files = split_trace(trace, parts, d)
    procs = []
    for k, (p, n) in enumerate(files):
        env = dict(os.environ, TRACE=p, JAVA_TOOL_OPTIONS="-Xss1g")
        cmd = ["timeout", "1500", "tlc", "-workers", "1", "-metadir", os.path.join(d, "st%d" % k), "-cleanup", "-noGenerateSpecTE",
               "-config", "TraceAbs.cfg", "TraceAbs.tla"]
        fo = open(os.path.join(d, "val-%d.out" % k), "w")
        procs.append((subprocess.Popen(cmd, cwd=d, env=env, stdout=fo, stderr=subprocess.STDOUT), fo, n, k))
    viols, consumed = [], 0
    ovl = set()
    for pr, fo, n, k in procs:
        pr.wait()
        fo.close()
        txt = open(os.path.join(d, "val-%d.out" % k)).read()
        for mm in re.finditer(r'^<<"OVL", (\d+)>>$', txt, re.M):
            ovl.add(int(mm.group(1)))
        m = re.search(r'<<"CONSUMED", (\d+)>>', txt)
        if not m or int(m.group(1)) != n:
            raise ToolError("trace validation did not consume its input (%s of %d runs):\n%s" % (m.group(1) if m else "?", n, txt[-3000:]))
        consumed += n
        for line in txt.splitlines():
            mm = re.match(r'^<<"VIOL", "(.*)">>$', line)
            if mm:
                viols.append(json.loads(unescape(mm.group(1))))
                continue
            mm = re.match(r'^<<"DRIFT", "(.*)">>$', line)
            if mm:
                dv = json.loads(unescape(mm.group(1)))
                if len(CHAN["drift"]) < 200:
                    CHAN["drift"].append(dict(dv, tag=tag))
                if dv.get("p"):
                    viols.append(dict(dv, w="channel: " + dv["w"]))
                continue
            mm = re.match(r'^<<"CDRIFT", "(.*)">>$', line)
            if mm:
                dv = json.loads(unescape(mm.group(1)))
                if len(COLL["drift"]) < 200:
                    COLL["drift"].append(dict(dv, tag=tag))
                if dv.get("p"):
                    viols.append(dict(dv, w="collector: " + dv["w"]))
                continue
            mm = re.match(r'^<<"COLL", (\d+), (\d+), (\d+)>>$', line)
            if mm:
                COLL["runs"] += 1
                COLL["cycles"] += int(mm.group(2))
                COLL["records"] += int(mm.group(3))
                continue
            mm = re.match(r'^<<"CHAN", (\d+), (\d+)>>$', line)
            if mm:
                CHAN["runs"] += 1
                CHAN["events"] += int(mm.group(2))
    for v in viols:
        v["ovl"] = v["run"] in ovl
    return viols, consumed


def classify(viols, prop, known):
    """Splits the violations of `prop` into new ones and instances of listed known findings."""
    sigs = {k["signature"]: k for k in known if k.get("property") == prop}
    new, listed = [], []
    for v in viols:
        # under overload, lost or reordered signals show as C01 / C03 / C04 / C08 failures: C09's business too
        if v["p"] != prop and not (prop == "C09" and v.get("ovl") and v["p"] in ("C01", "C03", "C04", "C08")):
            continue
        if v.get("k") and v["k"] in sigs:
            listed.append((v, sigs[v["k"]]))
        else:
            new.append(v)
    return new, listed
