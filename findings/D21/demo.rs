use fastrace::collector::{Config, ConsoleReporter};
use fastrace::prelude::*;
fn main() {
    fastrace::set_reporter(ConsoleReporter, Config::default());
    let which = std::env::args().nth(1).unwrap_or_default();
    let root = Span::root("root", SpanContext::random());
    let other = Span::root("other", SpanContext::random());
    let _g = root.set_local_parent();
    let s = LocalSpan::enter_with_local_parent("outer-local");
    match which.as_str() {
        "with" => {
            let g2 = other.set_local_parent();
            let s = s.with_property(|| ("k", "v"));
            drop(g2);
            drop(s);
        }
        "iter" => {
            // an iterator whose next() calls back into fastrace
            struct It(u32);
            impl Iterator for It {
                type Item = (String, String);
                fn next(&mut self) -> Option<Self::Item> {
                    if self.0 == 0 { return None; }
                    self.0 -= 1;
                    let _ = SpanContext::current_local_parent();
                    Some(("k".into(), "v".into()))
                }
            }
            LocalSpan::add_properties(|| It(2));
            let s = s.with_properties(|| It(2));
            drop(s);
        }
        _ => {}
    }
    println!("ok {which}");
    fastrace::flush();
}
